//! Simulated child processes for the supervisor, installed through the *public*
//! spawn hook: the hook adds a `TokioCommandWrapper` whose `wrap_child` returns
//! our own `TokioChildWrapper`. Every call the job task makes on the child is
//! recorded with a virtual timestamp (tokio paused clock, whole milliseconds).

use std::{
	future::Future,
	io,
	os::unix::process::ExitStatusExt,
	process::ExitStatus,
	sync::{Arc, Mutex},
};

use process_wrap::tokio::{TokioChildWrapper, TokioCommandWrap, TokioCommandWrapper};
use serde::{Deserialize, Serialize};
use tokio::{
	process::{Child, Command},
	sync::watch,
	time::{sleep_until, Duration, Instant},
};
use watchexec_supervisor::job::{CommandState, JobTaskContext};

#[derive(Clone, Debug, Serialize, Deserialize, PartialEq, Eq)]
pub enum React {
	/// Signal is ignored.
	Ignore,
	/// Process exits this many ms after the first catchable signal.
	ExitAfter(u32),
}

#[derive(Clone, Debug, Serialize, Deserialize, PartialEq, Eq)]
pub struct ChildSpec {
	/// Exits by itself this many ms after spawn (exit code `code`).
	pub self_exit: Option<u32>,
	pub code: u8,
	pub react: React,
}

impl ChildSpec {
	pub fn forever() -> Self {
		Self {
			self_exit: None,
			code: 0,
			react: React::Ignore,
		}
	}
}

#[derive(Clone, Debug, Default, Serialize, Deserialize)]
pub struct SimSpec {
	/// Behaviour per spawn index; the last entry repeats (empty = runs forever, ignores signals).
	pub children: Vec<ChildSpec>,
	pub spawn_fail: Vec<u8>,
	/// indices (0-based, global) of start_kill calls that fail
	pub kill_fail: Vec<u8>,
	/// indices (0-based, global) of signal calls that fail
	pub signal_fail: Vec<u8>,
	/// install spawn hooks and error handlers through the async variants of the Job API
	#[serde(default)]
	pub async_api: bool,
	/// with the async API: the spawn hook's future suspends for this many (virtual) ms before the spawn goes on
	#[serde(default)]
	pub hook_delay: u8,
	/// indices (0-based, global, counted over wait() calls on children not yet reaped) of wait() calls that
	/// fail at once with an I/O error although the child lives on (only generated for C04)
	#[serde(default)]
	pub wait_fail: Vec<u8>,
	/// a killed child dies this many (virtual) ms after the kill was started, as a real process does: the job
	/// task is then suspended inside its Stop for that long (0 everywhere except in C10's `arrival-during-kill`)
	#[serde(default)]
	pub kill_lag_ms: u8,
	/// injected kill failures carry ESRCH ("no such process": what killpg reports for a process group that
	/// has no members left, although the job's own child may live on) instead of a generic I/O error
	#[serde(default)]
	pub kill_esrch: bool,
}

impl SimSpec {
	pub fn child(&self, idx: usize) -> ChildSpec {
		if self.children.is_empty() {
			ChildSpec::forever()
		} else {
			self.children[idx.min(self.children.len() - 1)].clone()
		}
	}
}

#[derive(Clone, Copy, Debug, PartialEq, Eq, Serialize)]
pub enum StateKind {
	Pending,
	Running,
	Finished,
}

pub fn kind_of(s: &CommandState) -> StateKind {
	match s {
		CommandState::Pending => StateKind::Pending,
		CommandState::Running { .. } => StateKind::Running,
		CommandState::Finished { .. } => StateKind::Finished,
	}
}

#[derive(Clone, Debug, PartialEq, Eq, Serialize)]
pub enum Ev {
	HookCall { marker: Option<u32>, current: StateKind, previous: Option<StateKind> },
	SpawnAttempt { idx: usize, marker: Option<u32> },
	SpawnFailed { idx: usize },
	Spawned { child: usize },
	Signal { child: usize, sig: i32, ok: bool, alive: bool },
	StartKill { child: usize, ok: bool, alive: bool },
	WaitStart { child: usize },
	WaitFailed { child: usize },
	WaitDone { child: usize, raw: i32 },
	TryWait { child: usize, raw: Option<i32> },
	Drop { child: usize, reaped: bool, alive: bool },
	ErrorHandler { msg: String },
}

#[derive(Clone, Debug, Serialize)]
pub struct Rec {
	/// microseconds of virtual time since world creation
	pub t_us: u64,
	pub ev: Ev,
}

impl Rec {
	pub fn ms(&self) -> u64 {
		self.t_us / 1000
	}
}

struct ChildSt {
	spec: ChildSpec,
	/// scheduled exit: (instant, raw wait status)
	exit: watch::Sender<Option<(Instant, i32)>>,
	signalled: bool,
	reaped: Option<i32>,
	dropped: bool,
}

struct Inner {
	spec: SimSpec,
	t0: Instant,
	log: Vec<Rec>,
	children: Vec<ChildSt>,
	spawn_attempts: usize,
	kill_calls: usize,
	signal_calls: usize,
	wait_calls: usize,
}

#[derive(Clone)]
pub struct World(Arc<Mutex<Inner>>);

impl World {
	pub fn new(spec: SimSpec) -> Self {
		Self(Arc::new(Mutex::new(Inner {
			spec,
			t0: Instant::now(),
			log: Vec::new(),
			children: Vec::new(),
			spawn_attempts: 0,
			kill_calls: 0,
			signal_calls: 0,
			wait_calls: 0,
		})))
	}

	pub fn now_ms(&self) -> u64 {
		let g = self.0.lock().unwrap();
		(Instant::now() - g.t0).as_millis() as u64
	}

	pub fn t0(&self) -> Instant {
		self.0.lock().unwrap().t0
	}

	fn rec(g: &mut Inner, ev: Ev) {
		let t_us = (Instant::now() - g.t0).as_micros() as u64;
		g.log.push(Rec { t_us, ev });
	}

	pub fn record(&self, ev: Ev) {
		let mut g = self.0.lock().unwrap();
		Self::rec(&mut g, ev);
	}

	pub fn log(&self) -> Vec<Rec> {
		self.0.lock().unwrap().log.clone()
	}

	/// Install the simulating spawn hook through the sync or the async API, as the spec says.
	pub fn set_hook(&self, job: &watchexec_supervisor::job::Job, marker: Option<u32>) -> watchexec_supervisor::job::Ticket {
		if self.0.lock().unwrap().spec.async_api {
			job.set_spawn_async_hook(self.hook_async(marker))
		} else {
			job.set_spawn_hook(self.hook(marker))
		}
	}

	pub fn set_error_handler(&self, job: &watchexec_supervisor::job::Job) -> watchexec_supervisor::job::Ticket {
		if self.0.lock().unwrap().spec.async_api {
			job.set_async_error_handler(self.error_handler_async())
		} else {
			job.set_error_handler(self.error_handler())
		}
	}

	pub fn spawned(&self) -> usize {
		self.0.lock().unwrap().children.len()
	}

	/// Spawn hook body: records the call and installs the simulating wrapper.
	pub fn hook(&self, marker: Option<u32>) -> impl Fn(&mut TokioCommandWrap, &JobTaskContext<'_>) + Send + Sync + 'static {
		let world = self.clone();
		move |cmd, ctx| {
			world.record(Ev::HookCall {
				marker,
				current: kind_of(ctx.current),
				previous: ctx.previous.map(kind_of),
			});
			if let Some(m) = marker {
				cmd.command_mut().env("VERIF_HOOK_MARKER", m.to_string());
			}
			cmd.wrap(SimWrapper {
				world: world.clone(),
				marker,
				idx: None,
			});
		}
	}

	/// The same hook through `set_spawn_async_hook`: the work is done when the closure is called, the
	/// returned future is ready at once, or suspends for `hook_delay` ms (the job task is busy meanwhile).
	pub fn hook_async(
		&self,
		marker: Option<u32>,
	) -> impl (Fn(&mut TokioCommandWrap, &JobTaskContext<'_>) -> Box<dyn std::future::Future<Output = ()> + Send + Sync>) + Send + Sync + 'static {
		let f = self.hook(marker);
		let delay = u64::from(self.0.lock().unwrap().spec.hook_delay);
		move |cmd, ctx| {
			f(cmd, ctx);
			if delay == 0 {
				Box::new(std::future::ready(()))
			} else {
				Box::new(async move { tokio::time::sleep(std::time::Duration::from_millis(delay)).await })
			}
		}
	}

	pub fn error_handler_async(&self) -> impl (Fn(watchexec_supervisor::errors::SyncIoError) -> Box<dyn std::future::Future<Output = ()> + Send + Sync>) + Send + Sync + 'static {
		let f = self.error_handler();
		move |err| {
			f(err);
			Box::new(std::future::ready(()))
		}
	}

	pub fn error_handler(&self) -> impl Fn(watchexec_supervisor::errors::SyncIoError) + Send + Sync + 'static {
		let world = self.clone();
		move |err| {
			let msg = err.get().map(|e| e.to_string()).unwrap_or_default();
			world.record(Ev::ErrorHandler { msg });
		}
	}

	fn alive_now(c: &ChildSt) -> bool {
		if c.reaped.is_some() {
			return false;
		}
		match *c.exit.borrow() {
			Some((t, _)) => Instant::now() < t,
			None => true,
		}
	}

	fn schedule_exit(c: &ChildSt, at: Instant, raw: i32) {
		let cur = *c.exit.borrow();
		match cur {
			Some((t, _)) if t <= at => {}
			_ => {
				c.exit.send_replace(Some((at, raw)));
			}
		}
	}
}

#[derive(Debug)]
struct SimWrapper {
	world: World,
	marker: Option<u32>,
	idx: Option<usize>,
}

impl std::fmt::Debug for World {
	fn fmt(&self, f: &mut std::fmt::Formatter<'_>) -> std::fmt::Result {
		f.write_str("World")
	}
}

impl TokioCommandWrapper for SimWrapper {
	fn pre_spawn(&mut self, command: &mut Command, _core: &TokioCommandWrap) -> io::Result<()> {
		let mut g = self.world.0.lock().unwrap();
		let idx = g.spawn_attempts;
		g.spawn_attempts += 1;
		self.idx = Some(idx);
		// the env var set by the hook must have survived on the command
		let marker_seen = command
			.as_std()
			.get_envs()
			.find(|(k, _)| *k == "VERIF_HOOK_MARKER")
			.and_then(|(_, v)| v.and_then(|v| v.to_str()).and_then(|s| s.parse::<u32>().ok()));
		let _ = self.marker;
		World::rec(&mut g, Ev::SpawnAttempt { idx, marker: marker_seen });
		if g.spec.spawn_fail.iter().any(|&i| i as usize == idx) {
			World::rec(&mut g, Ev::SpawnFailed { idx });
			return Err(io::Error::other(format!("injected spawn failure #{idx}")));
		}
		Ok(())
	}

	fn wrap_child(&mut self, child: Box<dyn TokioChildWrapper>, _core: &TokioCommandWrap) -> io::Result<Box<dyn TokioChildWrapper>> {
		let mut g = self.world.0.lock().unwrap();
		let id = g.children.len();
		let spec = g.spec.child(self.idx.unwrap_or(id));
		let (tx, _rx) = watch::channel(spec.self_exit.map(|ms| {
			(Instant::now() + Duration::from_millis(u64::from(ms)), i32::from(spec.code) << 8)
		}));
		g.children.push(ChildSt {
			spec,
			exit: tx,
			signalled: false,
			reaped: None,
			dropped: false,
		});
		World::rec(&mut g, Ev::Spawned { child: id });
		Ok(Box::new(SimChild {
			inner: child,
			world: self.world.clone(),
			id,
			_guard: DropGuard {
				world: self.world.clone(),
				id,
			},
		}))
	}
}

#[derive(Debug)]
pub struct SimChild {
	inner: Box<dyn TokioChildWrapper>,
	world: World,
	id: usize,
	_guard: DropGuard,
}

#[derive(Debug)]
struct DropGuard {
	world: World,
	id: usize,
}

impl Drop for DropGuard {
	fn drop(&mut self) {
		let mut g = self.world.0.lock().unwrap();
		let c = &mut g.children[self.id];
		c.dropped = true;
		let reaped = c.reaped.is_some();
		let alive = World::alive_now(c);
		// kill-on-drop semantics
		World::schedule_exit(c, Instant::now(), 9);
		let id = self.id;
		World::rec(&mut g, Ev::Drop { child: id, reaped, alive });
	}
}

impl TokioChildWrapper for SimChild {
	fn inner(&self) -> &Child {
		self.inner.inner()
	}
	fn inner_mut(&mut self) -> &mut Child {
		self.inner.inner_mut()
	}
	fn into_inner(self: Box<Self>) -> Child {
		let SimChild { inner, .. } = *self;
		inner.into_inner()
	}

	fn id(&self) -> Option<u32> {
		Some(1_000_000 + self.id as u32)
	}

	fn start_kill(&mut self) -> io::Result<()> {
		let mut g = self.world.0.lock().unwrap();
		let call = g.kill_calls;
		g.kill_calls += 1;
		let fail = g.spec.kill_fail.iter().any(|&i| i as usize == call);
		let id = self.id;
		let alive = World::alive_now(&g.children[id]);
		if fail {
			World::rec(&mut g, Ev::StartKill { child: id, ok: false, alive });
			if g.spec.kill_esrch {
				return Err(io::Error::from_raw_os_error(libc::ESRCH));
			}
			return Err(io::Error::other(format!("injected kill failure #{call}")));
		}
		if g.children[id].reaped.is_some() {
			World::rec(&mut g, Ev::StartKill { child: id, ok: false, alive });
			return Err(io::Error::new(io::ErrorKind::InvalidInput, "invalid argument: can't kill an exited process"));
		}
		let lag = std::time::Duration::from_millis(u64::from(g.spec.kill_lag_ms));
		World::schedule_exit(&g.children[id], Instant::now() + lag, 9);
		World::rec(&mut g, Ev::StartKill { child: id, ok: true, alive });
		Ok(())
	}

	fn try_wait(&mut self) -> io::Result<Option<ExitStatus>> {
		let mut g = self.world.0.lock().unwrap();
		let id = self.id;
		let c = &mut g.children[id];
		let res = if let Some(raw) = c.reaped {
			Some(raw)
		} else {
			match *c.exit.borrow() {
				Some((t, raw)) if t <= Instant::now() => Some(raw),
				_ => None,
			}
		};
		if let Some(raw) = res {
			c.reaped = Some(raw);
		}
		World::rec(&mut g, Ev::TryWait { child: id, raw: res });
		Ok(res.map(ExitStatus::from_raw))
	}

	fn wait(&mut self) -> Box<dyn Future<Output = io::Result<ExitStatus>> + Send + '_> {
		let world = self.world.clone();
		let id = self.id;
		Box::new(async move {
			let mut rx = {
				let mut g = world.0.lock().unwrap();
				if let Some(raw) = g.children[id].reaped {
					return Ok(ExitStatus::from_raw(raw));
				}
				World::rec(&mut g, Ev::WaitStart { child: id });
				let call = g.wait_calls;
				g.wait_calls += 1;
				if g.spec.wait_fail.iter().any(|&i| i as usize == call) {
					World::rec(&mut g, Ev::WaitFailed { child: id });
					return Err(io::Error::other(format!("injected wait failure #{call}")));
				}
				g.children[id].exit.subscribe()
			};
			loop {
				let cur = *rx.borrow_and_update();
				match cur {
					Some((t, raw)) => {
						if t <= Instant::now() {
							let mut g = world.0.lock().unwrap();
							g.children[id].reaped = Some(raw);
							World::rec(&mut g, Ev::WaitDone { child: id, raw });
							return Ok(ExitStatus::from_raw(raw));
						}
						tokio::select! {
							() = sleep_until(t) => {}
							_ = rx.changed() => {}
						}
					}
					None => {
						if rx.changed().await.is_err() {
							return Err(io::Error::other("sim child channel closed"));
						}
					}
				}
			}
		})
	}

	fn signal(&self, sig: i32) -> io::Result<()> {
		let mut g = self.world.0.lock().unwrap();
		let call = g.signal_calls;
		g.signal_calls += 1;
		let fail = g.spec.signal_fail.iter().any(|&i| i as usize == call);
		let id = self.id;
		let alive = World::alive_now(&g.children[id]);
		if fail {
			World::rec(&mut g, Ev::Signal { child: id, sig, ok: false, alive });
			return Err(io::Error::other(format!("injected signal failure #{call}")));
		}
		if g.children[id].reaped.is_some() {
			World::rec(&mut g, Ev::Signal { child: id, sig, ok: false, alive });
			return Err(io::Error::from_raw_os_error(libc::ESRCH));
		}
		World::rec(&mut g, Ev::Signal { child: id, sig, ok: true, alive });
		if alive {
			let c = &mut g.children[id];
			if sig == libc::SIGKILL {
				World::schedule_exit(c, Instant::now(), 9);
			} else if sig != libc::SIGSTOP && sig != libc::SIGCONT && sig != 0 {
				if let React::ExitAfter(ms) = c.spec.react {
					if !c.signalled {
						c.signalled = true;
						World::schedule_exit(c, Instant::now() + Duration::from_millis(u64::from(ms)), sig & 0x7f);
					}
				}
			}
		}
		Ok(())
	}
}
