//! Shared generators: a small name alphabet rich in prefix-related names, and the pattern grammar
//! of the properties (names, *.ext, dir/, /rooted, a/b, **/x, x/**, a/**/b, negations).

use proptest::prelude::*;

pub const DIR_NAMES: &[&str] = &["test", "tests", "te", "a", "ab", "src", "src2", "build", "build-tools", "target", "gen", "generated", "x y", " a", "\tab"];
pub const FILE_NAMES: &[&str] = &["x.log", "y.rs", "main.rs", "out.o", "notes.txt", "keep.txt", "Makefile", ".hidden", "a.tar.gz", "test", "ab"];
pub const EXTS: &[&str] = &["log", "rs", "o", "txt", "gz"];

pub fn dir_name() -> impl Strategy<Value = String> {
	proptest::sample::select(DIR_NAMES.to_vec()).prop_map(str::to_string)
}

pub fn file_name() -> impl Strategy<Value = String> {
	proptest::sample::select(FILE_NAMES.to_vec()).prop_map(str::to_string)
}

pub fn any_name() -> impl Strategy<Value = String> {
	prop_oneof![dir_name(), file_name()]
}

/// A non-negated pattern from the grammar.
pub fn positive_pattern() -> BoxedStrategy<String> {
	let ext = proptest::sample::select(EXTS.to_vec());
	prop_oneof![
		4 => any_name(),
		3 => ext.clone().prop_map(|e| format!("*.{e}")),
		3 => dir_name().prop_map(|d| format!("{d}/")),
		3 => any_name().prop_map(|n| format!("/{n}")),
		2 => dir_name().prop_map(|d| format!("/{d}/")),
		3 => (dir_name(), any_name()).prop_map(|(a, b)| format!("{a}/{b}")),
		2 => (dir_name(), ext.clone()).prop_map(|(a, e)| format!("{a}/*.{e}")),
		3 => any_name().prop_map(|n| format!("**/{n}")),
		3 => dir_name().prop_map(|d| format!("{d}/**")),
		1 => dir_name().prop_map(|d| format!("/{d}/**")),
		2 => (dir_name(), any_name()).prop_map(|(a, b)| format!("{a}/**/{b}")),
		1 => (dir_name(), any_name()).prop_map(|(a, b)| format!("**/{a}/{b}")),
		1 => Just("te*".to_string()),
		1 => Just("*".to_string()),
		1 => Just("?b".to_string()),
	]
	.boxed()
}

/// A pattern, negated with the given probability.
pub fn pattern(neg: f64) -> BoxedStrategy<String> {
	(positive_pattern(), proptest::bool::weighted(neg))
		.prop_map(|(p, n)| if n { format!("!{p}") } else { p })
		.boxed()
}

/// A relative path of 1..=depth components (dirs then a final name).
pub fn rel_path(max_depth: usize) -> BoxedStrategy<Vec<String>> {
	(proptest::collection::vec(dir_name(), 0..max_depth), any_name())
		.prop_map(|(mut d, f)| {
			d.push(f);
			d
		})
		.boxed()
}

/// A per-case sub-alphabet (3 dir names, 3 file names) so that patterns and paths collide often.
#[derive(Clone, Debug)]
pub struct Alpha {
	pub dirs: Vec<String>,
	pub files: Vec<String>,
}

pub fn alpha() -> BoxedStrategy<Alpha> {
	(
		proptest::sample::subsequence(DIR_NAMES.to_vec(), 3),
		proptest::sample::subsequence(FILE_NAMES.to_vec(), 3),
		proptest::bool::weighted(0.5),
		0u8..10,
	)
		.prop_map(|(mut d, f, prefix_pair, ws)| {
			if prefix_pair {
				// force a prefix-related pair of sibling names
				d[0] = "test";
				d[1] = "tests";
			}
			if ws == 0 {
				// names that differ only in leading white space (significant in gitignore patterns)
				d[1] = "a";
				d[2] = " a";
			} else if ws == 1 {
				d[1] = "ab";
				d[2] = "\tab";
			}
			Alpha {
				dirs: d.into_iter().map(str::to_string).collect(),
				files: f.into_iter().map(str::to_string).collect(),
			}
		})
		.boxed()
}

impl Alpha {
	pub fn dir(&self) -> BoxedStrategy<String> {
		proptest::sample::select(self.dirs.clone()).boxed()
	}
	pub fn file(&self) -> BoxedStrategy<String> {
		proptest::sample::select(self.files.clone()).boxed()
	}
	pub fn any(&self) -> BoxedStrategy<String> {
		prop_oneof![self.dir(), self.file()].boxed()
	}
	pub fn positive_pattern(&self) -> BoxedStrategy<String> {
		let ext = proptest::sample::select(EXTS.to_vec());
		prop_oneof![
			4 => self.any(),
			3 => ext.clone().prop_map(|e| format!("*.{e}")),
			3 => self.dir().prop_map(|d| format!("{d}/")),
			3 => self.any().prop_map(|n| format!("/{n}")),
			2 => self.dir().prop_map(|d| format!("/{d}/")),
			3 => (self.dir(), self.any()).prop_map(|(a, b)| format!("{a}/{b}")),
			2 => (self.dir(), ext.clone()).prop_map(|(a, e)| format!("{a}/*.{e}")),
			3 => self.any().prop_map(|n| format!("**/{n}")),
			3 => self.dir().prop_map(|d| format!("{d}/**")),
			1 => self.dir().prop_map(|d| format!("/{d}/**")),
			2 => (self.dir(), self.any()).prop_map(|(a, b)| format!("{a}/**/{b}")),
			1 => (self.dir(), self.any()).prop_map(|(a, b)| format!("**/{a}/{b}")),
			1 => Just("te*".to_string()),
			1 => Just("*".to_string()),
			1 => Just("?b".to_string()),
		]
		.boxed()
	}
	pub fn pattern(&self, neg: f64) -> BoxedStrategy<String> {
		let real = (self.positive_pattern(), proptest::bool::weighted(neg)).prop_map(|(p, n)| if n { format!("!{p}") } else { p });
		// lines that must have no effect: comments (also ones that look like a pattern) and blank lines
		let noop = prop_oneof![
			Just("# a comment".to_string()),
			Just(String::new()),
			Just("   ".to_string()),
			self.any().prop_map(|n| format!("#{n}")),
			Just("#*".to_string()),
			Just("#!keep".to_string()),
		];
		prop_oneof![15 => real, 1 => noop].boxed()
	}
	pub fn rel_path(&self, max_depth: usize) -> BoxedStrategy<Vec<String>> {
		(proptest::collection::vec(self.dir(), 0..max_depth), self.any())
			.prop_map(|(mut d, f)| {
				d.push(f);
				d
			})
			.boxed()
	}
}
