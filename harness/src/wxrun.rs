//! In-process runner for a full `Watchexec` instance (real time): generated producers send
//! synthetic events, a table-driven filterer gives each a verdict, the action and error handlers
//! record what they see with monotonic stamps. Shared by C01, C02, C15 (and the handler leg of C13).

use std::{
	collections::HashMap,
	sync::{
		atomic::{AtomicUsize, Ordering},
		Arc, Mutex,
	},
	time::{Duration, Instant},
};

use serde::{Deserialize, Serialize};
use watchexec::{
	error::{CriticalError, RuntimeError},
	filter::Filterer,
	Config, Watchexec,
};
use watchexec_events::{Event, Keyboard, Priority, Source, Tag};
use watchexec_signals::Signal;

pub const QUIT_ID: u32 = u32::MAX;

#[derive(Clone, Debug, Serialize, Deserialize)]
pub struct Ev {
	/// ms to wait before sending
	pub gap: u16,
	/// 0 low, 1 normal, 2 high, 3 urgent
	pub prio: u8,
	/// 0 pass, 1 reject, 2 error
	pub verdict: u8,
	/// 0 process tag only, 1 + path, 2 + signal, 3 + keyboard eof, 4 empty event (no tags)
	pub shape: u8,
}

#[derive(Clone, Debug, Serialize, Deserialize)]
pub struct Scenario {
	pub throttle: u32,
	pub chan: u32,
	pub err_chan: u32,
	pub handler_async: bool,
	pub handler_ms: u16,
	pub producers: Vec<Vec<Ev>>,
	/// 0 ignore, 1 slow (20 ms), 2 replaces itself on the first call, 3 elevate on the j-th error, 4 critical(External) on the j-th
	pub err_kind: u8,
	pub err_j: u8,
	/// action handler replaces itself when it has seen this many batches (0 = never)
	pub replace_action_at: u8,
	/// change the throttle to this value this many ms after the start
	pub throttle_change: Option<(u16, u32)>,
	/// the filter raises an error whenever it is asked about an event without tags (it need not be asked:
	/// such events by-pass the filter; but an error it raises must reach the error handler)
	#[serde(default)]
	pub empty_errs: bool,
	/// the run-time throttle change is made through the public field (Changeable::replace, no change signal)
	/// instead of the Config::throttle method: consumers are documented to read just in time
	#[serde(default)]
	pub throttle_via_field: bool,
	/// (period ms, count): the action handler creates `count` supervised jobs (never started: no processes) in
	/// its first invocation, and a side task then ends one of them (delete_now + dropping the handle, so that
	/// its task finishes) every `period` ms. Job tasks ending must not disturb the batch under construction.
	#[serde(default)]
	pub job_churn: Option<(u16, u8)>,
}

pub const EMPTY_ERR_ID: u32 = 0xEEEE_EEEE;

pub fn prio(p: u8) -> Priority {
	match p % 4 {
		0 => Priority::Low,
		1 => Priority::Normal,
		2 => Priority::High,
		_ => Priority::Urgent,
	}
}

pub fn make_event(id: u32, shape: u8) -> Event {
	let mut tags = Vec::new();
	match shape % 5 {
		4 => return Event::default(),
		1 => tags.push(Tag::Path { path: format!("/vh/ev/{id}").into(), file_type: None }),
		2 => tags.push(Tag::Signal(Signal::User1)),
		3 => tags.push(Tag::Keyboard(Keyboard::Eof)),
		_ => {}
	}
	tags.push(Tag::Process(id));
	tags.push(Tag::Source(Source::Internal));
	Event { tags, metadata: Default::default() }
}

pub fn id_of(ev: &Event) -> Option<u32> {
	ev.tags.iter().find_map(|t| if let Tag::Process(p) = t { Some(*p) } else { None })
}

#[derive(Debug)]
struct IdError(u32);
impl std::fmt::Display for IdError {
	fn fmt(&self, f: &mut std::fmt::Formatter<'_>) -> std::fmt::Result {
		write!(f, "injected filter error for event {}", self.0)
	}
}
impl std::error::Error for IdError {}

#[derive(Debug)]
struct TableFilter {
	verdicts: HashMap<u32, u8>,
	asked: Arc<Mutex<Vec<u32>>>,
	/// (id, µs since t0) of every call
	asked_at: Arc<Mutex<Vec<(u32, u64)>>>,
	t0: Instant,
	empty_errs: bool,
	empty_calls: Arc<AtomicUsize>,
}

impl Filterer for TableFilter {
	fn check_event(&self, event: &Event, _priority: Priority) -> Result<bool, RuntimeError> {
		let Some(id) = id_of(event) else {
			self.empty_calls.fetch_add(1, Ordering::SeqCst);
			return if self.empty_errs { Err(RuntimeError::External(Box::new(IdError(EMPTY_ERR_ID)))) } else { Ok(true) };
		};
		self.asked.lock().unwrap().push(id);
		self.asked_at.lock().unwrap().push((id, us(self.t0)));
		match self.verdicts.get(&id).copied().unwrap_or(0) {
			0 => Ok(true),
			1 => Ok(false),
			_ => Err(RuntimeError::External(Box::new(IdError(id)))),
		}
	}
}

#[derive(Clone, Debug, Serialize)]
pub struct Sent {
	pub id: u32,
	pub producer: usize,
	pub prio: u8,
	pub verdict: u8,
	pub shape: u8,
	/// µs since scenario start, before and after send_event
	pub before_us: u64,
	pub after_us: u64,
	pub ok: bool,
}

#[derive(Clone, Debug, Serialize)]
pub struct Batch {
	pub entry_us: u64,
	pub ids: Vec<Option<u32>>,
	/// which generation of the action handler ran it
	pub generation: u8,
	/// handler finished (µs)
	pub exit_us: u64,
}

#[derive(Clone, Debug, Serialize)]
pub struct ErrSeen {
	pub at_us: u64,
	/// id of the injected filter error, if it is one
	pub id: Option<u32>,
	pub text: String,
	pub generation: u8,
	pub kind: String,
	pub debug: String,
}

#[derive(Clone, Debug, Serialize)]
pub struct Run {
	pub sent: Vec<Sent>,
	pub batches: Vec<Batch>,
	pub asked: Vec<u32>,
	pub asked_at: Vec<(u32, u64)>,
	/// how often the filter was asked about an event without tags
	pub empty_filter_calls: usize,
	pub errors: Vec<ErrSeen>,
	/// "ok", "elevated:<id>", "external", "other:<text>", "hang"
	pub main_result: String,
	pub quit_sent_us: u64,
	pub quiesced: bool,
	pub main_done_us: u64,
	pub throttle_changed_us: Option<u64>,
}

struct Shared {
	t0: Instant,
	batches: Mutex<Vec<Batch>>,
	errors: Mutex<Vec<ErrSeen>>,
	action_gen: AtomicUsize,
	err_calls: AtomicUsize,
	churn_jobs: Mutex<Vec<watchexec_supervisor::job::Job>>,
	churn_count: AtomicUsize,
}

fn us(t0: Instant) -> u64 {
	t0.elapsed().as_micros() as u64
}

/// The number of things the ledger still waits for: owed (sent ok) events that must be delivered
/// and have not been seen by the handler, non-urgent events the filter has not been asked about,
/// and injected filter errors the error handler has not seen.
fn outstanding(sent: &[Sent], batches: &[Batch], asked: &[u32], errors: &[ErrSeen], stop_on_error_handler: bool) -> usize {
	let mut delivered: HashMap<Option<u32>, usize> = HashMap::new();
	for b in batches {
		for id in &b.ids {
			*delivered.entry(*id).or_default() += 1;
		}
	}
	let mut missing = 0;
	let empties_sent = sent.iter().filter(|s| s.ok && s.shape % 5 == 4).count();
	let empties_seen = delivered.get(&None).copied().unwrap_or(0);
	missing += empties_sent.saturating_sub(empties_seen);
	for s in sent {
		if !s.ok || s.shape % 5 == 4 {
			continue;
		}
		let urgent = s.prio % 4 == 3;
		if (s.verdict == 0 || urgent) && !delivered.contains_key(&Some(s.id)) {
			missing += 1;
		}
		if !urgent && !asked.contains(&s.id) {
			missing += 1;
		}
		if !urgent && s.verdict == 2 && !stop_on_error_handler && !errors.iter().any(|e| e.kind == "filter" && e.id == Some(s.id)) {
			missing += 1;
		}
	}
	missing
}

pub type Side = dyn Fn(Arc<Watchexec>) -> std::pin::Pin<Box<dyn std::future::Future<Output = ()> + Send>> + Sync;

pub fn run(sc: &Scenario, install: Option<&dyn Fn()>) -> Run {
	run_with(sc, install, None, &[])
}

pub fn run_with(sc: &Scenario, install: Option<&dyn Fn()>, side: Option<&Side>, pathset: &[&str]) -> Run {
	let rt = if install.is_some() {
		tokio::runtime::Builder::new_current_thread().enable_all().build().unwrap()
	} else {
		tokio::runtime::Builder::new_multi_thread().worker_threads(2).enable_all().build().unwrap()
	};
	if let Some(f) = install {
		f();
	}
	let out = rt.block_on(async {
		let t0 = Instant::now();
		let shared = Arc::new(Shared {
			t0,
			batches: Mutex::new(Vec::new()),
			errors: Mutex::new(Vec::new()),
			action_gen: AtomicUsize::new(0),
			err_calls: AtomicUsize::new(0),
			churn_jobs: Mutex::new(Vec::new()),
			churn_count: AtomicUsize::new(sc.job_churn.map_or(0, |c| usize::from(c.1))),
		});
		let mut verdicts = HashMap::new();
		for (pi, p) in sc.producers.iter().enumerate() {
			for (k, e) in p.iter().enumerate() {
				verdicts.insert(((pi as u32) << 16) | k as u32, e.verdict % 3);
			}
		}
		let asked = Arc::new(Mutex::new(Vec::new()));
		let mut config = Config::default();
		config.event_channel_size = sc.chan.max(1) as usize;
		config.error_channel_size = sc.err_chan.max(1) as usize;
		config.throttle(Duration::from_millis(u64::from(sc.throttle)));
		let asked_at = Arc::new(Mutex::new(Vec::new()));
		let empty_calls = Arc::new(AtomicUsize::new(0));
		config.filterer(TableFilter { verdicts, asked: asked.clone(), asked_at: asked_at.clone(), t0, empty_errs: sc.empty_errs, empty_calls: empty_calls.clone() });
		let config_slot: Arc<Mutex<Option<Arc<Config>>>> = Arc::new(Mutex::new(None));

		// ---- action handler (generation g); may replace itself from inside
		fn record_batch(shared: &Shared, action: &mut watchexec::action::ActionHandler, generation: u8) -> (usize, bool) {
			// job churn: the first invocation creates the jobs whose tasks a side task ends later
			let n = shared.churn_count.swap(0, Ordering::SeqCst);
			if n > 0 {
				let cmd = Arc::new(watchexec_supervisor::command::Command {
					program: watchexec_supervisor::command::Program::Exec { prog: "/bin/true".into(), args: vec![] },
					options: Default::default(),
				});
				let mut jobs = shared.churn_jobs.lock().unwrap();
				for _ in 0..n {
					jobs.push(action.create_job(cmd.clone()).1);
				}
			}
			let ids: Vec<Option<u32>> = action.events.iter().map(id_of).collect();
			let quit = ids.contains(&Some(QUIT_ID));
			let mut b = shared.batches.lock().unwrap();
			b.push(Batch { entry_us: us(shared.t0), ids, generation, exit_us: 0 });
			(b.len() - 1, quit)
		}
		let handler_ms = u64::from(sc.handler_ms);
		let replace_at = sc.replace_action_at as usize;
		let is_async = sc.handler_async;
		fn install_action(config: &Config, shared: Arc<Shared>, slot: Arc<Mutex<Option<Arc<Config>>>>, generation: u8, handler_ms: u64, replace_at: usize, is_async: bool) {
			let after = {
				let shared = shared.clone();
				let slot = slot.clone();
				move |idx: usize| {
					shared.batches.lock().unwrap()[idx].exit_us = us(shared.t0);
					if generation == 0 && replace_at > 0 && idx + 1 == replace_at {
						let cfg = slot.lock().unwrap().clone();
						if let Some(cfg) = cfg {
							// reconfigure from inside the running handler
							shared.action_gen.store(1, Ordering::SeqCst);
							install_action(&cfg, shared.clone(), slot.clone(), 1, handler_ms, 0, is_async);
							cfg.pathset(Vec::<watchexec::WatchedPath>::new());
						}
					}
				}
			};
			if is_async {
				let shared2 = shared.clone();
				config.on_action_async(move |mut action| {
					let shared = shared2.clone();
					let after = after.clone();
					Box::new(async move {
						let (idx, quit) = record_batch(&shared, &mut action, generation);
						if handler_ms > 0 {
							tokio::time::sleep(Duration::from_millis(handler_ms)).await;
						}
						after(idx);
						if quit {
							action.quit();
						}
						action
					})
				});
			} else {
				let shared2 = shared.clone();
				config.on_action(move |mut action| {
					let (idx, quit) = record_batch(&shared2, &mut action, generation);
					if handler_ms > 0 {
						std::thread::sleep(Duration::from_millis(handler_ms));
					}
					after(idx);
					if quit {
						action.quit();
					}
					action
				});
			}
		}
		install_action(&config, shared.clone(), config_slot.clone(), 0, handler_ms, replace_at, is_async);

		// ---- error handler
		fn install_err(config: &Config, shared: Arc<Shared>, slot: Arc<Mutex<Option<Arc<Config>>>>, kind: u8, j: usize, generation: u8) {
			let shared2 = shared.clone();
			config.on_error(move |hook| {
				let n = shared2.err_calls.fetch_add(1, Ordering::SeqCst);
				let debug = format!("{:?}", hook.error);
				let proc_id = || debug.split("Process(").nth(1).and_then(|r| r.split(')').next()).and_then(|n| n.parse::<u32>().ok());
				let (ekind, id) = match &hook.error {
					RuntimeError::External(e) => ("filter", e.to_string().rsplit(' ').next().and_then(|s| s.parse().ok())),
					RuntimeError::EventChannelTrySend { .. } => ("trysend", proc_id()),
					RuntimeError::FsWatcher { err: watchexec::error::FsWatcherError::Event(_), .. } => ("fs-event", None),
					RuntimeError::FsWatcher { err: watchexec::error::FsWatcherError::PathAdd { .. }, .. } => ("path-add", None),
					RuntimeError::FsWatcher { err: watchexec::error::FsWatcherError::PathRemove { .. }, .. } => ("path-remove", None),
					_ => ("other", None),
				};
				let text = format!("{ekind}: {}", hook.error);
				shared2.errors.lock().unwrap().push(ErrSeen { at_us: us(shared2.t0), id, text, generation, kind: ekind.to_string(), debug });
				match kind {
					1 => std::thread::sleep(Duration::from_millis(20)),
					2 if generation == 0 => {
						if let Some(cfg) = slot.lock().unwrap().clone() {
							install_err(&cfg, shared2.clone(), slot.clone(), kind, j, 1);
						}
					}
					3 if n == j => hook.elevate(),
					4 if n == j => hook.critical(CriticalError::External(Box::new(IdError(u32::MAX)))),
					_ => {}
				}
			});
		}
		install_err(&config, shared.clone(), config_slot.clone(), sc.err_kind % 5, sc.err_j as usize, 0);

		let wx = match Watchexec::with_config(config) {
			Ok(w) => Arc::new(w),
			Err(e) => {
				return Run {
					sent: vec![],
					batches: vec![],
					asked: vec![],
					asked_at: vec![],
					empty_filter_calls: 0,
					errors: vec![],
					main_result: format!("other:with_config failed: {e}"),
					quit_sent_us: 0,
					quiesced: false,
					main_done_us: 0,
					throttle_changed_us: None,
				}
			}
		};
		*config_slot.lock().unwrap() = Some(wx.config.clone());
		if !pathset.is_empty() {
			wx.config.pathset(pathset.iter().map(|p| watchexec::WatchedPath::recursive(*p)).collect::<Vec<_>>());
		}
		let main = wx.main();
		let side_task = side.map(|f| tokio::spawn(f(wx.clone())));
		let sent: Arc<Mutex<Vec<Sent>>> = Arc::new(Mutex::new(Vec::new()));
		let mut producers = Vec::new();
		for (pi, p) in sc.producers.iter().enumerate() {
			let wx = wx.clone();
			let p = p.clone();
			let sent = sent.clone();
			producers.push(tokio::spawn(async move {
				for (k, e) in p.iter().enumerate() {
					if e.gap > 0 {
						tokio::time::sleep(Duration::from_millis(u64::from(e.gap))).await;
					}
					let id = ((pi as u32) << 16) | k as u32;
					let ev = make_event(id, e.shape);
					let before_us = us(t0);
					let ok = tokio::time::timeout(Duration::from_secs(5), wx.send_event(ev, prio(e.prio))).await.map_or(false, |r| r.is_ok());
					let after_us = us(t0);
					sent.lock().unwrap().push(Sent {
						id,
						producer: pi,
						prio: e.prio % 4,
						verdict: e.verdict % 3,
						shape: e.shape % 5,
						before_us,
						after_us,
						ok,
					});
					if !ok {
						break;
					}
				}
			}));
		}
		let churn_task = sc.job_churn.map(|(period, count)| {
			let shared = shared.clone();
			tokio::spawn(async move {
				let until = Instant::now() + Duration::from_secs(6);
				let mut ended = 0;
				while ended < usize::from(count) && Instant::now() < until {
					tokio::time::sleep(Duration::from_millis(u64::from(period.max(1)))).await;
					let job = shared.churn_jobs.lock().unwrap().pop();
					if let Some(job) = job {
						let _ = job.delete_now();
						drop(job);
						ended += 1;
					}
				}
			})
		});
		let mut throttle_changed_us = None;
		if let Some((at, to)) = sc.throttle_change {
			tokio::time::sleep(Duration::from_millis(u64::from(at))).await;
			if sc.throttle_via_field {
				wx.config.throttle.replace(Duration::from_millis(u64::from(to)));
			} else {
				wx.config.throttle(Duration::from_millis(u64::from(to)));
			}
			throttle_changed_us = Some(us(t0));
		}
		for p in producers {
			let _ = p.await;
		}
		if let Some(t) = side_task {
			let _ = t.await;
		}
		if let Some(t) = churn_task {
			let _ = t.await;
		}
		// wait for quiescence (everything owed has been delivered) before requesting the quit
		// (a slow handler with throttle 0 gets one event per invocation: allow one handler duration per event sent)
		let n_events: u64 = sc.producers.iter().map(|p| p.len() as u64).sum();
		let deadline = Instant::now()
			+ Duration::from_millis(1500 + 3 * u64::from(sc.throttle.max(sc.throttle_change.map_or(0, |c| c.1))) + u64::from(sc.handler_ms) * (n_events + 2)
				+ if sc.err_kind % 5 == 1 { 25 * n_events } else { 0 });
		let mut quiesced = false;
		let mut main = main;
		let mut main_early: Option<String> = None;
		while Instant::now() < deadline {
			if outstanding(&sent.lock().unwrap(), &shared.batches.lock().unwrap(), &asked.lock().unwrap(), &shared.errors.lock().unwrap(), false) == 0 {
				quiesced = true;
				break;
			}
			if main.is_finished() {
				break;
			}
			tokio::time::sleep(Duration::from_millis(3)).await;
		}
		// if the error handler escalated, the main task must end by itself: do not race it with a quit
		if matches!(sc.err_kind % 5, 3 | 4) && shared.err_calls.load(Ordering::SeqCst) > sc.err_j as usize {
			let until = Instant::now() + Duration::from_secs(3);
			while Instant::now() < until && !main.is_finished() {
				tokio::time::sleep(Duration::from_millis(2)).await;
			}
		}
		let quit_sent_us = us(t0);
		if !main.is_finished() {
			let _ = tokio::time::timeout(Duration::from_secs(2), wx.send_event(make_event(QUIT_ID, 0), Priority::Urgent)).await;
		}
		let main_result = match tokio::time::timeout(Duration::from_secs(5), &mut main).await {
			Err(_) => {
				main.abort();
				"hang".to_string()
			}
			Ok(Err(e)) => format!("other:join error {e}"),
			Ok(Ok(Ok(()))) => "ok".to_string(),
			Ok(Ok(Err(CriticalError::Elevated { err, .. }))) => match err {
				RuntimeError::External(e) => format!("elevated:{}", e.to_string().rsplit(' ').next().unwrap_or("?")),
				other => format!("elevated-other:{other}"),
			},
			Ok(Ok(Err(CriticalError::External(_)))) => "external".to_string(),
			Ok(Ok(Err(e))) => format!("other:{e}"),
		};
		let _ = &mut main_early;
		let main_done_us = us(t0);
		let sent = sent.lock().unwrap().clone();
		let batches = shared.batches.lock().unwrap().clone();
		let errors = shared.errors.lock().unwrap().clone();
		let asked = asked.lock().unwrap().clone();
		let asked_at_v = asked_at.lock().unwrap().clone();
		Run {
			sent,
			batches,
			asked,
			asked_at: asked_at_v,
			empty_filter_calls: empty_calls.load(Ordering::SeqCst),
			errors,
			main_result,
			quit_sent_us,
			quiesced,
			main_done_us,
			throttle_changed_us,
		}
	});
	rt.shutdown_timeout(Duration::from_millis(200));
	out
}
