fn main() {}
