//! Child process used by the real-process checks.
//!
//! Dump mode (env VERIF_DUMP=<file>): writes argv (hex), pid/pgid/sid of itself and its parent,
//! cwd and VERIF_*/WATCHEXEC_* environment as JSON, then exits 0. Used as program *and* as shell.
//!
//! Run mode (`vhelper run --log F --lock F [--exit-after MS] [--on-signal exit|ignore|delay:MS]
//! [--fork-grandchild ignore|exit]`): appends "start/signal/end" lines with CLOCK_MONOTONIC stamps,
//! holds a non-blocking exclusive flock for its lifetime (logs OVERLAP if it is already held).

use std::{
	fs::OpenOptions,
	io::Write,
	os::unix::{ffi::OsStrExt, io::AsRawFd},
};

fn mono_ns() -> u128 {
	let mut ts = libc::timespec { tv_sec: 0, tv_nsec: 0 };
	unsafe { libc::clock_gettime(libc::CLOCK_MONOTONIC, &mut ts) };
	ts.tv_sec as u128 * 1_000_000_000 + ts.tv_nsec as u128
}

/// (starttime, state) from /proc/<pid>/stat
fn proc_start(pid: &str) -> Option<(String, String)> {
	let s = std::fs::read_to_string(format!("/proc/{pid}/stat")).ok()?;
	let rest = s.rsplit(')').next()?;
	let f: Vec<&str> = rest.split_whitespace().collect();
	// after the ")": state is field 0, starttime is field 19 (field 22 of the whole line)
	Some((f.get(19)?.to_string(), f.first()?.to_string()))
}

fn hex(b: &[u8]) -> String {
	b.iter().map(|x| format!("{x:02x}")).collect()
}

fn log(path: &str, line: &str) {
	if let Ok(mut f) = OpenOptions::new().create(true).append(true).open(path) {
		let _ = f.write_all(format!("{line}\n").as_bytes());
	}
}

fn dump(path: &str) {
	let argv: Vec<String> = std::env::args_os().map(|a| hex(a.as_bytes())).collect();
	let pid = unsafe { libc::getpid() };
	let ppid = unsafe { libc::getppid() };
	let env: Vec<(String, String)> = std::env::vars_os()
		.filter_map(|(k, v)| {
			let k = k.to_string_lossy().into_owned();
			if k.starts_with("VERIF_") || k.starts_with("WATCHEXEC_") {
				Some((k, hex(v.as_bytes())))
			} else {
				None
			}
		})
		.collect();
	let mut stdin_hex = String::new();
	if std::env::var_os("VERIF_READ_STDIN").is_some() {
		use std::io::Read;
		let mut buf = Vec::new();
		let _ = std::io::stdin().read_to_end(&mut buf);
		stdin_hex = hex(&buf);
	}
	let cwd = std::env::current_dir().map(|p| hex(p.as_os_str().as_bytes())).unwrap_or_default();
	let mut s = String::from("{");
	s.push_str(&format!("\"argv\":[{}],", argv.iter().map(|a| format!("\"{a}\"")).collect::<Vec<_>>().join(",")));
	s.push_str(&format!("\"pid\":{pid},\"pgid\":{},\"sid\":{},", unsafe { libc::getpgid(0) }, unsafe { libc::getsid(0) }));
	s.push_str(&format!("\"ppid\":{ppid},\"ppgid\":{},\"psid\":{},", unsafe { libc::getpgid(ppid) }, unsafe { libc::getsid(ppid) }));
	s.push_str(&format!("\"cwd\":\"{cwd}\",\"stdin\":\"{stdin_hex}\","));
	s.push_str(&format!("\"env\":{{{}}}", env.iter().map(|(k, v)| format!("\"{k}\":\"{v}\"")).collect::<Vec<_>>().join(",")));
	s.push('}');
	// write atomically: tmp + rename
	let tmp = format!("{path}.tmp{pid}");
	if std::fs::write(&tmp, s).is_ok() {
		let _ = std::fs::rename(&tmp, path);
	}
}

/// `vhelper origins <new root> <path>...`: makes <new root> the filesystem root of this process (chroot) and
/// prints, for every path (given as seen from inside), the project origins and the project types of `/`.
/// Lets a check put project markers into the filesystem root itself. "chroot-failed" if not permitted.
fn origins_in_root(args: &[String]) {
	let Some(root) = args.first() else { std::process::exit(3) };
	let c = std::ffi::CString::new(root.as_bytes()).unwrap();
	let rc = unsafe { libc::chroot(c.as_ptr()) };
	if rc != 0 || std::env::set_current_dir("/").is_err() {
		println!("chroot-failed {}", std::io::Error::last_os_error());
		return;
	}
	let rt = tokio::runtime::Builder::new_current_thread().enable_all().build().unwrap();
	for p in &args[1..] {
		let got = rt.block_on(project_origins::origins(p));
		let mut v: Vec<String> = got.iter().map(|o| hex(o.as_os_str().as_bytes())).collect();
		v.sort();
		println!("origins {} {}", hex(p.as_bytes()), v.join(" "));
	}
	let mut t: Vec<String> = rt.block_on(project_origins::types("/")).iter().map(|t| format!("{t:?}")).collect();
	t.sort();
	println!("root-types {}", t.join(" "));
}

fn main() {
	if let Ok(p) = std::env::var("VERIF_DUMP") {
		dump(&p);
		return;
	}
	let args: Vec<String> = std::env::args().collect();
	if args.get(1).map(String::as_str) == Some("origins") {
		origins_in_root(&args[2..]);
		return;
	}
	if args.get(1).map(String::as_str) != Some("run") {
		eprintln!("vhelper: nothing to do");
		std::process::exit(3);
	}
	let mut logp = String::new();
	let mut lockp = String::new();
	let mut exit_after: Option<u64> = None;
	let mut on_signal = "exit".to_string();
	let mut grandchild: Option<String> = None;
	let mut tag = String::new();
	let mut i = 2;
	while i < args.len() {
		match args[i].as_str() {
			"--log" => {
				i += 1;
				logp = args[i].clone();
			}
			"--lock" => {
				i += 1;
				lockp = args[i].clone();
			}
			"--exit-after" => {
				i += 1;
				exit_after = args[i].parse().ok();
			}
			"--on-signal" => {
				i += 1;
				on_signal = args[i].clone();
			}
			"--fork-grandchild" => {
				i += 1;
				grandchild = Some(args[i].clone());
			}
			"--tag" => {
				i += 1;
				tag = args[i].clone();
			}
			_ => {}
		}
		i += 1;
	}
	// block the signals we want to observe and wait for them synchronously
	// (also signals nobody configured: a supervisor that sends, say, SIGCONT after every signal is seen)
	let sigs = [libc::SIGTERM, libc::SIGINT, libc::SIGHUP, libc::SIGUSR1, libc::SIGUSR2, libc::SIGQUIT, libc::SIGCONT, libc::SIGALRM, libc::SIGWINCH, libc::SIGPIPE, libc::SIGURG];
	let mut set: libc::sigset_t = unsafe { std::mem::zeroed() };
	unsafe {
		libc::sigemptyset(&mut set);
		for s in sigs {
			libc::sigaddset(&mut set, s);
		}
		libc::sigprocmask(libc::SIG_BLOCK, &set, std::ptr::null_mut());
	}
	let pid = unsafe { libc::getpid() };
	if let Some(mode) = &grandchild {
		// a member of the same process group that outlives (or not) the leader
		let child = unsafe { libc::fork() };
		if child == 0 {
			let me = unsafe { libc::getpid() };
			log(&logp, &format!("gstart {me} {} {tag}", mono_ns()));
			loop {
				let mut info: libc::siginfo_t = unsafe { std::mem::zeroed() };
				let ts = libc::timespec { tv_sec: 30, tv_nsec: 0 };
				let s = unsafe { libc::sigtimedwait(&set, &mut info, &ts) };
				if s > 0 {
					log(&logp, &format!("gsignal {me} {} {s}", mono_ns()));
					if mode == "exit" {
						log(&logp, &format!("gend {me} {}", mono_ns()));
						std::process::exit(0);
					}
				} else {
					std::process::exit(0);
				}
			}
		}
	}
	let lockf = OpenOptions::new().create(true).write(true).open(&lockp).ok();
	if let Some(f) = &lockf {
		let r = unsafe { libc::flock(f.as_raw_fd(), libc::LOCK_EX | libc::LOCK_NB) };
		if r != 0 {
			log(&logp, &format!("OVERLAP {pid} {}", mono_ns()));
		}
	}
	// previous process of the same job (recorded by it in <lock>.pid as "pid starttime"): if it still has an
	// entry in /proc with the same start time it has not been reaped yet (running or zombie)
	if !lockp.is_empty() {
		let pidf = format!("{lockp}.pid");
		if let Ok(prev) = std::fs::read_to_string(&pidf) {
			let mut it = prev.split_whitespace();
			if let (Some(ppid_s), Some(pst)) = (it.next(), it.next()) {
				if let Some((st, state)) = proc_start(ppid_s) {
					if st == pst {
						log(&logp, &format!("UNREAPED {pid} {} prev={ppid_s} state={state}", mono_ns()));
					}
				}
			}
		}
		if let Some((st, _)) = proc_start(&pid.to_string()) {
			let _ = std::fs::write(&pidf, format!("{pid} {st}"));
		}
	}
	let envs: Vec<String> = std::env::vars()
		.filter(|(k, _)| k.starts_with("WATCHEXEC_") || k.starts_with("VERIF_"))
		.map(|(k, v)| format!("{k}={}", hex(v.as_bytes())))
		.collect();
	log(&logp, &format!("start {pid} {} {tag} pgid={} {}", mono_ns(), unsafe { libc::getpgid(0) }, envs.join(",")));
	let start = mono_ns();
	let mut deadline: Option<u128> = exit_after.map(|ms| start + u128::from(ms) * 1_000_000);
	loop {
		let now = mono_ns();
		let wait_ns: u128 = match deadline {
			Some(d) if d <= now => break,
			Some(d) => d - now,
			None => 3_600_000_000_000,
		};
		let ts = libc::timespec {
			tv_sec: (wait_ns / 1_000_000_000) as libc::time_t,
			tv_nsec: (wait_ns % 1_000_000_000) as libc::c_long,
		};
		let mut info: libc::siginfo_t = unsafe { std::mem::zeroed() };
		let s = unsafe { libc::sigtimedwait(&set, &mut info, &ts) };
		if s > 0 {
			log(&logp, &format!("signal {pid} {} {s}", mono_ns()));
			if on_signal == "exit" {
				break;
			} else if let Some(ms) = on_signal.strip_prefix("delay:") {
				let ms: u64 = ms.parse().unwrap_or(0);
				let d = mono_ns() + u128::from(ms) * 1_000_000;
				deadline = Some(deadline.map_or(d, |x| x.min(d)));
				// further signals are only logged
				on_signal = "ignore".to_string();
			}
		} else {
			// timeout (or EINTR): re-evaluate
		}
	}
	log(&logp, &format!("end {pid} {}", mono_ns()));
	drop(lockf);
}
