//! Probe process for the C01 `real-sources` leg: a library `Watchexec` instance whose events come
//! from the real signal source (OS signals sent to this process) and the real keyboard source (EOF
//! on this process's stdin). Every batch handed to the action handler is appended to the log, one
//! line per event: `ev <batch#> <mono_ns> <tag> <tag> ...`.
//!
//! usage: wxprobe --log F --throttle MS --keyboard 0|1 [--reject NAME,NAME]
use std::{
	fs::OpenOptions,
	io::Write,
	sync::{
		atomic::{AtomicUsize, Ordering},
		Arc,
	},
	time::Duration,
};

use watchexec::{error::RuntimeError, filter::Filterer, Config, Watchexec};
use watchexec_events::{Event, Priority, Tag};

fn mono_ns() -> u128 {
	let mut ts = libc::timespec { tv_sec: 0, tv_nsec: 0 };
	unsafe { libc::clock_gettime(libc::CLOCK_MONOTONIC, &mut ts) };
	ts.tv_sec as u128 * 1_000_000_000 + ts.tv_nsec as u128
}

fn log(path: &str, line: &str) {
	if let Ok(mut f) = OpenOptions::new().create(true).append(true).open(path) {
		let _ = f.write_all(format!("{line}\n").as_bytes());
	}
}

/// Rejects the listed signal kinds and records every verdict (the filter is only consulted for
/// non-urgent events; which signals the source marks urgent is not the harness's business).
#[derive(Debug)]
struct Reject(Vec<String>, String);
impl Filterer for Reject {
	fn check_event(&self, event: &Event, _p: Priority) -> Result<bool, RuntimeError> {
		let mut verdict = true;
		for t in &event.tags {
			if let Tag::Signal(s) = t {
				let name = format!("{s:?}");
				let ok = !self.0.contains(&name);
				log(&self.1, &format!("asked {name} {ok}"));
				verdict &= ok;
			}
		}
		Ok(verdict)
	}
}

fn main() {
	let args: Vec<String> = std::env::args().collect();
	let mut logp = String::new();
	let mut throttle = 0u64;
	let mut keyboard = false;
	let mut reject: Vec<String> = Vec::new();
	let mut toggles = 0u32;
	let mut i = 1;
	while i < args.len() {
		match args[i].as_str() {
			"--log" => {
				i += 1;
				logp = args[i].clone();
			}
			"--throttle" => {
				i += 1;
				throttle = args[i].parse().unwrap_or(0);
			}
			"--keyboard" => {
				i += 1;
				keyboard = args[i] == "1";
			}
			"--keyboard-toggles" => {
				i += 1;
				toggles = args[i].parse().unwrap_or(0);
			}
			"--reject" => {
				i += 1;
				reject = args[i].split(',').filter(|s| !s.is_empty()).map(str::to_string).collect();
			}
			_ => {}
		}
		i += 1;
	}
	let rt = tokio::runtime::Builder::new_multi_thread().worker_threads(2).enable_all().build().unwrap();
	rt.block_on(async {
		let config = Config::default();
		config.throttle(Duration::from_millis(throttle));
		config.keyboard_events(keyboard);
		config.filterer(Reject(reject, logp.clone()));
		let n = Arc::new(AtomicUsize::new(0));
		let lp = logp.clone();
		config.on_action(move |action| {
			let b = n.fetch_add(1, Ordering::SeqCst);
			let now = mono_ns();
			let mut any = false;
			for ev in action.events.iter() {
				any = true;
				let tags: Vec<String> = ev
					.tags
					.iter()
					.map(|t| match t {
						Tag::Signal(s) => format!("sig:{s:?}"),
						Tag::Keyboard(k) => format!("kbd:{k:?}"),
						Tag::Source(s) => format!("src:{s:?}"),
						other => format!("other:{}", format!("{other:?}").split(['(', ' ', '{']).next().unwrap_or("?")),
					})
					.collect();
				log(&lp, &format!("ev {b} {now} {}", tags.join(" ")));
			}
			if !any {
				log(&lp, &format!("emptybatch {b} {now}"));
			}
			action
		});
		config.on_error({
			let lp = logp.clone();
			move |e| {
				log(&lp, &format!("error {} {}", mono_ns(), format!("{}", e.error).replace('\n', " ")));
			}
		});
		let wx = match Watchexec::with_config(config) {
			Ok(w) => w,
			Err(e) => {
				log(&logp, &format!("fatal with_config {e}"));
				std::process::exit(4);
			}
		};
		let main = wx.main();
		// the signal worker registers its listeners when first polled
		tokio::time::sleep(Duration::from_millis(50)).await;
		// the keyboard source switched on and off at run time before anything is sent
		let mut cur = keyboard;
		for _ in 0..toggles {
			tokio::time::sleep(Duration::from_millis(40)).await;
			cur = !cur;
			wx.config.keyboard_events(cur);
		}
		if toggles > 0 {
			tokio::time::sleep(Duration::from_millis(40)).await;
		}
		log(&logp, &format!("ready {} {}", std::process::id(), mono_ns()));
		let r = main.await;
		log(&logp, &format!("mainend {} {r:?}", mono_ns()));
	});
}
