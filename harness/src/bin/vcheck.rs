use std::path::PathBuf;

use vh::engine::{Engine, Tier};

fn main() {
	let args: Vec<String> = std::env::args().skip(1).collect();
	let mut id = None;
	let mut tier = match std::env::var("VERIF_TIER").as_deref() {
		Ok("thorough") => Tier::Thorough,
		_ => Tier::Quick,
	};
	let mut seed: u64 = std::env::var("VERIF_SEED")
		.ok()
		.and_then(|s| s.trim().parse::<i128>().ok())
		.map(|n| n as u64)
		.unwrap_or(0);
	let mut replay: Option<PathBuf> = None;
	let mut i = 0;
	while i < args.len() {
		match args[i].as_str() {
			"--tier" => {
				i += 1;
				tier = match args.get(i).map(String::as_str) {
					Some("quick") => Tier::Quick,
					Some("thorough") => Tier::Thorough,
					other => {
						eprintln!("bad tier {other:?}");
						std::process::exit(2);
					}
				};
			}
			"--seed" => {
				i += 1;
				seed = args.get(i).and_then(|s| s.parse().ok()).unwrap_or(0);
			}
			"--replay" => {
				i += 1;
				replay = args.get(i).map(PathBuf::from);
			}
			"quick" => tier = Tier::Quick,
			"thorough" => tier = Tier::Thorough,
			other if id.is_none() => id = Some(other.to_string()),
			other => {
				eprintln!("unexpected argument {other}");
				std::process::exit(2);
			}
		}
		i += 1;
	}
	if id.as_deref() == Some("jobtrace") {
		// debug aid: vcheck jobtrace --replay <file with a JobCase json>
		let text = std::fs::read_to_string(replay.expect("--replay FILE")).unwrap();
		let case: vh::jobdrive::JobCase = serde_json::from_str(&text).unwrap();
		let trace = vh::jobdrive::run_case(&case);
		println!("{}", vh::jobgen::fmt_log(&trace));
		for s in &trace.steps {
			println!("step {:?}", s);
		}
		for m in &trace.markers {
			println!("marker {:?}", m);
		}
		println!("task_end {:?} dead {:?}", trace.task_end, trace.is_dead_at_end);
		return;
	}
	let Some(id) = id else {
		eprintln!("usage: vcheck <ID> [--tier quick|thorough] [--seed N] [--replay FILE]");
		std::process::exit(2);
	};
	// a fuzz artifact (raw bytes, not a JSON replay file) is replayed through its fuzz target
	if let Some(r) = &replay {
		let is_json = std::fs::read_to_string(r).ok().and_then(|s| serde_json::from_str::<serde_json::Value>(&s).ok()).map_or(false, |v| v.get("case").is_some());
		if !is_json {
			let name = r.file_name().and_then(|n| n.to_str()).unwrap_or("");
			let target = ["c16_json", "c19_signal", "c11_glob"].into_iter().find(|t| name.contains(t));
			let Some(target) = target else {
				eprintln!("replay file is neither a JSON replay nor a known fuzz artifact: {r:?}");
				std::process::exit(2);
			};
			let st = std::process::Command::new("cargo")
				.current_dir("/verif/harness")
				.env("CARGO_NET_OFFLINE", "true")
				.args(["+nightly", "fuzz", "run", "--fuzz-dir", "/verif/fuzz", target])
				.arg(r)
				.status();
			match st {
				Ok(s) if s.success() => {
					println!("replayed fuzz artifact through {target}: no failure");
					std::process::exit(0);
				}
				Ok(_) => {
					println!("VIOLATION property={id} replay={}", r.display());
					std::process::exit(1);
				}
				Err(e) => {
					eprintln!("cannot run cargo fuzz: {e}");
					std::process::exit(2);
				}
			}
		}
	}
	let engine = match Engine::new(&id, tier, seed, replay.as_deref()) {
		Ok(e) => e,
		Err(e) => {
			eprintln!("engine: {e}");
			std::process::exit(2);
		}
	};
	// quiet panics: they are caught per case and reported through the engine
	std::panic::set_hook(Box::new(|_| {}));
	if !vh::props::run(&id, &engine) {
		eprintln!("unknown property {id}");
		std::process::exit(2);
	}
	std::process::exit(engine.finish());
}
