//! Shim `main` for end-to-end legs: the real CLI (`watchexec_cli::run()`), minus pid1/allocator set-up.
use std::process::ExitCode;

fn main() -> ExitCode {
	match tokio::runtime::Builder::new_multi_thread().enable_all().build().unwrap().block_on(async { watchexec_cli::run().await }) {
		Ok(code) => code,
		Err(e) => {
			eprintln!("{e:?}");
			ExitCode::FAILURE
		}
	}
}
