//! Independent gitignore-style evaluator for the generated pattern grammar
//! (names, *.ext, dir/, /rooted, a/b, **/x, x/**, a/**/b, ?, [..] classes, ! negation).
//! Written from the gitignore documentation; it does not call the `ignore` / `globset` crates.

use std::path::{Component, Path};

#[derive(Clone, Debug, PartialEq, Eq)]
pub enum Seg {
	/// `**`: zero or more whole components
	AnyDirs,
	/// a component glob with `*`, `?`, `[...]`
	Glob(String),
}

#[derive(Clone, Debug)]
pub struct Line {
	pub text: String,
	pub neg: bool,
	pub dir_only: bool,
	pub segs: Vec<Seg>,
}

#[derive(Clone, Copy, Debug, PartialEq, Eq)]
pub enum Verdict {
	None,
	Ignore,
	Whitelist,
}

pub fn parse_line(raw: &str) -> Option<Line> {
	let mut s = raw.trim_end_matches(' ');
	if s.is_empty() || s.starts_with('#') {
		return None;
	}
	let mut neg = false;
	if let Some(rest) = s.strip_prefix('!') {
		neg = true;
		s = rest;
	}
	let mut anchored = false;
	if let Some(rest) = s.strip_prefix('/') {
		anchored = true;
		s = rest;
	}
	let mut dir_only = false;
	if let Some(rest) = s.strip_suffix('/') {
		dir_only = true;
		s = rest;
	}
	if s.is_empty() {
		return None;
	}
	let mut segs: Vec<Seg> = s.split('/').map(|p| if p == "**" { Seg::AnyDirs } else { Seg::Glob(p.to_string()) }).collect();
	if !anchored && !s.contains('/') {
		// a pattern without a slash matches at any depth
		segs.insert(0, Seg::AnyDirs);
	}
	if segs.len() >= 2 && segs.last() == Some(&Seg::AnyDirs) {
		// trailing "/**" matches everything inside: at least one more component
		segs.push(Seg::Glob("*".into()));
	}
	Some(Line {
		text: raw.to_string(),
		neg,
		dir_only,
		segs,
	})
}

/// Match one path component against a component glob (`*` and `?` never match '/': components
/// contain none).
pub fn glob_comp(pat: &str, text: &str) -> bool {
	let p: Vec<char> = pat.chars().collect();
	let t: Vec<char> = text.chars().collect();
	fn class(p: &[char], i: usize) -> Option<(Vec<(char, char)>, bool, usize)> {
		// p[i] == '['
		let mut j = i + 1;
		let mut negated = false;
		if j < p.len() && (p[j] == '!' || p[j] == '^') {
			negated = true;
			j += 1;
		}
		let mut ranges = Vec::new();
		let mut first = true;
		while j < p.len() && (p[j] != ']' || first) {
			first = false;
			if j + 2 < p.len() && p[j + 1] == '-' && p[j + 2] != ']' {
				ranges.push((p[j], p[j + 2]));
				j += 3;
			} else {
				ranges.push((p[j], p[j]));
				j += 1;
			}
		}
		if j < p.len() && p[j] == ']' {
			Some((ranges, negated, j + 1))
		} else {
			None
		}
	}
	fn go(p: &[char], pi: usize, t: &[char], ti: usize) -> bool {
		if pi == p.len() {
			return ti == t.len();
		}
		match p[pi] {
			'*' => (ti..=t.len()).any(|k| go(p, pi + 1, t, k)),
			'?' => ti < t.len() && go(p, pi + 1, t, ti + 1),
			'[' => match class(p, pi) {
				Some((ranges, negated, next)) => {
					if ti >= t.len() {
						return false;
					}
					let c = t[ti];
					let inside = ranges.iter().any(|(a, b)| *a <= c && c <= *b);
					inside != negated && go(p, next, t, ti + 1)
				}
				None => ti < t.len() && t[ti] == '[' && go(p, pi + 1, t, ti + 1),
			},
			c => ti < t.len() && t[ti] == c && go(p, pi + 1, t, ti + 1),
		}
	}
	go(&p, 0, &t, 0)
}

fn segs_match(segs: &[Seg], comps: &[&str]) -> bool {
	match segs.first() {
		None => comps.is_empty(),
		Some(Seg::AnyDirs) => (0..=comps.len()).any(|k| segs_match(&segs[1..], &comps[k..])),
		Some(Seg::Glob(g)) => !comps.is_empty() && glob_comp(g, comps[0]) && segs_match(&segs[1..], &comps[1..]),
	}
}

/// Does this line match the path (given as components relative to the directory the pattern
/// belongs to)?
pub fn line_matches(line: &Line, rel: &[&str], is_dir: bool) -> bool {
	if rel.is_empty() {
		return false;
	}
	if line.dir_only && !is_dir {
		return false;
	}
	segs_match(&line.segs, rel)
}

/// Last matching line wins.
pub fn verdict_path_only(lines: &[Line], rel: &[&str], is_dir: bool) -> Verdict {
	for l in lines.iter().rev() {
		if line_matches(l, rel, is_dir) {
			return if l.neg { Verdict::Whitelist } else { Verdict::Ignore };
		}
	}
	Verdict::None
}

/// The path itself, then each of its parents (as directories) up to the pattern directory:
/// the first one with a matching line decides.
pub fn verdict_path_or_parents(lines: &[Line], rel: &[&str], is_dir: bool) -> Verdict {
	let v = verdict_path_only(lines, rel, is_dir);
	if v != Verdict::None {
		return v;
	}
	let mut n = rel.len();
	while n > 1 {
		n -= 1;
		let v = verdict_path_only(lines, &rel[..n], true);
		if v != Verdict::None {
			return v;
		}
	}
	Verdict::None
}

pub fn comps_of(p: &Path) -> Vec<String> {
	p.components()
		.filter_map(|c| match c {
			Component::Normal(s) => Some(s.to_string_lossy().into_owned()),
			_ => None,
		})
		.collect()
}

/// Components of `path` relative to `base`, if `base` is a component-wise ancestor-or-self.
pub fn rel_comps(base: &Path, path: &Path) -> Option<Vec<String>> {
	path.strip_prefix(base).ok().map(comps_of)
}

/// One ignore file as the evaluator sees it.
#[derive(Clone, Debug)]
pub struct MFile {
	/// directory the file applies in; None = global (patterns are relative to the origin)
	pub applies_in: Option<std::path::PathBuf>,
	pub lines: Vec<Line>,
}

/// Levels on the ancestor chain of `path`, nearest directory first, then global: each level is the
/// concatenation (in listed order) of the files applying in that directory, with its base dir.
fn levels<'a>(origin: &Path, files: &'a [MFile], path: &Path) -> Vec<(std::path::PathBuf, Vec<Line>)> {
	let mut dirs: Vec<std::path::PathBuf> = Vec::new();
	for f in files {
		if let Some(d) = &f.applies_in {
			if !dirs.contains(d) {
				dirs.push(d.clone());
			}
		}
	}
	// nearest first = longest path first among ancestors of `path`
	let mut anc: Vec<std::path::PathBuf> = dirs.into_iter().filter(|d| path.starts_with(d)).collect();
	anc.sort_by_key(|d| std::cmp::Reverse(d.components().count()));
	let mut out = Vec::new();
	for d in anc {
		let lines: Vec<Line> = files.iter().filter(|f| f.applies_in.as_ref() == Some(&d)).flat_map(|f| f.lines.iter().cloned()).collect();
		out.push((d, lines));
	}
	let global: Vec<Line> = files.iter().filter(|f| f.applies_in.is_none()).flat_map(|f| f.lines.iter().cloned()).collect();
	if !global.is_empty() {
		out.push((origin.to_path_buf(), global));
	}
	out
}

/// The statement's semantics: nearest directory's files first (path-or-parents inside that
/// directory, last matching line wins), then farther ones, then global files.
pub fn verdict_nearest_first(origin: &Path, files: &[MFile], path: &Path, is_dir: bool) -> Verdict {
	for (base, lines) in levels(origin, files, path) {
		let Some(rel) = rel_comps(&base, path) else { continue };
		let rel: Vec<&str> = rel.iter().map(String::as_str).collect();
		let v = verdict_path_or_parents(&lines, &rel, is_dir);
		if v != Verdict::None {
			return v;
		}
	}
	Verdict::None
}

/// git's own top-down semantics: a path is ignored if any leading directory is ignored (nothing
/// beneath an excluded directory can be re-included) or the path itself is.
pub fn ignored_git(origin: &Path, files: &[MFile], path: &Path, is_dir: bool) -> bool {
	let Some(rel) = rel_comps(origin, path) else { return false };
	let mut cur = origin.to_path_buf();
	for (k, c) in rel.iter().enumerate() {
		cur.push(c);
		let dir = k + 1 < rel.len() || is_dir;
		let mut verdict = Verdict::None;
		for (base, lines) in levels(origin, files, &cur) {
			let Some(r) = rel_comps(&base, &cur) else { continue };
			let r: Vec<&str> = r.iter().map(String::as_str).collect();
			let v = verdict_path_only(&lines, &r, dir);
			if v != Verdict::None {
				verdict = v;
				break;
			}
		}
		if verdict == Verdict::Ignore {
			return true;
		}
	}
	false
}

#[cfg(test)]
mod tests {
	use super::*;
	#[test]
	fn basics() {
		let l = parse_line("*.log").unwrap();
		assert!(line_matches(&l, &["a", "x.log"], false));
		assert!(!line_matches(&l, &["a", "x.logs"], false));
		let l = parse_line("/build").unwrap();
		assert!(line_matches(&l, &["build"], true));
		assert!(!line_matches(&l, &["a", "build"], true));
		let l = parse_line("x/**").unwrap();
		assert!(line_matches(&l, &["x", "a"], false));
		assert!(!line_matches(&l, &["x"], true));
		let l = parse_line("a/**/b").unwrap();
		assert!(line_matches(&l, &["a", "b"], false));
		assert!(line_matches(&l, &["a", "q", "r", "b"], false));
		assert!(glob_comp("*.py[co]", "x.pyc"));
		assert!(!glob_comp("*.py[co]", "x.pyd"));
		assert!(glob_comp(".*.sw?", ".a.swp"));
	}
}
