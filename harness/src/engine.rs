//! Seeded, sharded proptest driver with shrinking, replay, classification,
//! known-finding matching and evidence output.
//!
//! A property module calls `Engine::explore` (generated cases) and/or
//! `Engine::enumerate` (finite domains) once per "leg". In replay mode only the
//! leg named in the replay file runs, on the single stored case, with the
//! proptest library bypassed.

use std::{
	collections::{BTreeMap, HashSet},
	fmt::Debug,
	panic::{catch_unwind, AssertUnwindSafe},
	path::{Path, PathBuf},
	sync::{
		atomic::{AtomicBool, AtomicUsize, Ordering},
		Mutex,
	},
	time::Instant,
};

use proptest::{
	strategy::{BoxedStrategy, Strategy, ValueTree},
	test_runner::{Config, RngAlgorithm, TestRng, TestRunner},
};
use serde::{de::DeserializeOwned, Deserialize, Serialize};
use serde_json::{json, Value};

pub const VERIF_ROOT: &str = "/verif";

/// Debug aid (never set by the registered commands): `VERIF_ONLY_LEG=<name>` runs just that leg, used to
/// measure the sensitivity of one leg against a seeded change.
fn leg_skipped(leg: &str) -> bool {
	std::env::var("VERIF_ONLY_LEG").map_or(false, |l| l != leg)
}


#[derive(Clone, Copy, Debug, PartialEq, Eq)]
pub enum Tier {
	Quick,
	Thorough,
}

impl Tier {
	pub fn name(self) -> &'static str {
		match self {
			Tier::Quick => "quick",
			Tier::Thorough => "thorough",
		}
	}
	/// pick by tier
	pub fn pick<T>(self, quick: T, thorough: T) -> T {
		match self {
			Tier::Quick => quick,
			Tier::Thorough => thorough,
		}
	}
}

#[derive(Clone, Debug, Serialize, Deserialize)]
pub struct Failure {
	/// Root-cause signature; what known findings are keyed on.
	pub signature: String,
	pub message: String,
}

#[derive(Clone, Debug, Default)]
pub struct Outcome {
	pub failure: Option<Failure>,
	pub labels: Vec<String>,
	pub nontrivial: bool,
}

impl Outcome {
	pub fn pass() -> Self {
		Self::default()
	}
	pub fn label(&mut self, l: impl Into<String>) {
		let l = l.into();
		if !self.labels.contains(&l) {
			self.labels.push(l);
		}
	}
	pub fn fail(&mut self, signature: impl Into<String>, message: impl Into<String>) {
		if self.failure.is_none() {
			self.failure = Some(Failure {
				signature: signature.into(),
				message: message.into(),
			});
		}
	}
}

#[derive(Clone, Debug, Deserialize)]
pub struct KnownFinding {
	pub property: String,
	pub signature: String,
	/// "open" suppresses (prints KNOWN-FINDING); "fixed" suppresses nothing.
	pub status: String,
	#[serde(default)]
	pub commit: Option<String>,
	pub what: String,
}

#[derive(Serialize, Deserialize)]
struct ReplayFile {
	property: String,
	leg: String,
	signature: String,
	message: String,
	case: Value,
}

#[derive(Default)]
struct LegStats {
	evaluations: usize,
	nontrivial: usize,
	distinct_nontrivial: HashSet<u64>,
	labels: BTreeMap<String, usize>,
	samples: Vec<Value>,
	trivial_samples: Vec<Value>,
	exhaustive: bool,
	timing_anomalies: usize,
	excluded_known: usize,
	replays_run: usize,
	rule: String,
}

struct Violation {
	leg: String,
	failure: Failure,
	replay: PathBuf,
}

pub struct LegOpts {
	pub cases: usize,
	/// Fixed number of logical shards (each with its own RNG stream) — part of the
	/// deterministic definition of the run, independent of core count.
	pub shards: usize,
	/// OS threads used to execute shards.
	pub threads: usize,
	/// A failing case must fail this many additional re-executions (same signature) to count.
	/// 0 for deterministic media.
	pub confirm: usize,
	pub max_shrink_iters: usize,
	pub rule: &'static str,
	/// Signature prefixes of failures that are legitimately probabilistic (they need a particular
	/// interleaving the harness does not own) and whose oracle is protected against stalls by a
	/// generous wait: for these, one repeat in 5 re-executions confirms, instead of all of `confirm`.
	pub confirm_any: &'static [&'static str],
}

impl LegOpts {
	pub fn det(cases: usize, rule: &'static str) -> Self {
		Self {
			cases,
			shards: 16,
			threads: 16,
			confirm: 0,
			max_shrink_iters: 4000,
			rule,
			confirm_any: &[],
		}
	}
	pub fn realtime(cases: usize, threads: usize, rule: &'static str) -> Self {
		Self {
			cases,
			shards: threads,
			threads,
			confirm: 3,
			max_shrink_iters: 24,
			rule,
			confirm_any: &[],
		}
	}
}

pub struct Engine {
	pub id: String,
	pub tier: Tier,
	pub seed: u64,
	replay: Option<(String, Value)>,
	known: Vec<KnownFinding>,
	start: Instant,
	legs: Mutex<BTreeMap<String, LegStats>>,
	leg_order: Mutex<Vec<String>>,
	violations: Mutex<Vec<Violation>>,
	known_hits: Mutex<BTreeMap<String, usize>>,
	inconclusive: Mutex<Vec<String>>,
	assumptions: Mutex<Vec<String>>,
	pub level: Mutex<String>,
	extra: Mutex<BTreeMap<String, Value>>,
}

pub fn fnv64(bytes: &[u8]) -> u64 {
	let mut h: u64 = 0xcbf29ce484222325;
	for b in bytes {
		h ^= u64::from(*b);
		h = h.wrapping_mul(0x100000001b3);
	}
	h
}

fn mix(seed: u64, parts: &[&str], n: u64) -> [u8; 32] {
	let mut out = [0u8; 32];
	let mut h = seed ^ 0x9e3779b97f4a7c15;
	for p in parts {
		h = fnv64(&[&h.to_le_bytes()[..], p.as_bytes()].concat());
	}
	h = fnv64(&[&h.to_le_bytes()[..], &n.to_le_bytes()[..]].concat());
	for i in 0..4 {
		h = fnv64(&[&h.to_le_bytes()[..], &[i as u8]].concat());
		out[i * 8..i * 8 + 8].copy_from_slice(&h.to_le_bytes());
	}
	out
}

fn panic_message(p: Box<dyn std::any::Any + Send>) -> String {
	if let Some(s) = p.downcast_ref::<&str>() {
		(*s).to_string()
	} else if let Some(s) = p.downcast_ref::<String>() {
		s.clone()
	} else {
		"non-string panic".to_string()
	}
}

/// Run a property function, turning a panic into a failure.
fn guarded<C>(run: &(dyn Fn(&C) -> Outcome + Sync), case: &C) -> Outcome {
	match catch_unwind(AssertUnwindSafe(|| run(case))) {
		Ok(o) => o,
		Err(p) => {
			let msg = panic_message(p);
			let first = msg.lines().next().unwrap_or("").to_string();
			let mut o = Outcome::pass();
			let sig: String = first.chars().take(120).collect();
			o.fail(format!("panic:{sig}"), format!("panic while executing case: {msg}"));
			o
		}
	}
}

impl Engine {
	pub fn new(id: &str, tier: Tier, seed: u64, replay_file: Option<&Path>) -> Result<Self, String> {
		let known_path = Path::new(VERIF_ROOT).join("known_findings.json");
		let known: Vec<KnownFinding> = match std::fs::read_to_string(&known_path) {
			Ok(s) => serde_json::from_str::<Vec<KnownFinding>>(&s)
				.map_err(|e| format!("known_findings.json: {e}"))?
				.into_iter()
				.filter(|k| k.property == id)
				.collect(),
			Err(_) => Vec::new(),
		};
		let replay = match replay_file {
			None => None,
			Some(p) => {
				let s = std::fs::read_to_string(p).map_err(|e| format!("replay {p:?}: {e}"))?;
				let r: ReplayFile = serde_json::from_str(&s).map_err(|e| format!("replay {p:?}: {e}"))?;
				if r.property != id {
					return Err(format!("replay file is for {} not {id}", r.property));
				}
				Some((r.leg, r.case))
			}
		};
		Ok(Self {
			id: id.to_string(),
			tier,
			seed,
			replay,
			known,
			start: Instant::now(),
			legs: Default::default(),
			leg_order: Default::default(),
			violations: Default::default(),
			known_hits: Default::default(),
			inconclusive: Default::default(),
			assumptions: Default::default(),
			level: Mutex::new("exploration".into()),
			extra: Default::default(),
		})
	}

	pub fn is_replay(&self) -> bool {
		self.replay.is_some()
	}

	pub fn assume(&self, s: &str) {
		self.assumptions.lock().unwrap().push(s.to_string());
	}

	pub fn extra(&self, k: &str, v: Value) {
		self.extra.lock().unwrap().insert(k.to_string(), v);
	}

	pub fn inconclusive(&self, why: impl Into<String>) {
		let why = why.into();
		eprintln!("INCONCLUSIVE property={} {why}", self.id);
		self.inconclusive.lock().unwrap().push(why);
	}

	fn open_known(&self, sig: &str) -> Option<&KnownFinding> {
		self.known
			.iter()
			.find(|k| k.status == "open" && k.signature == sig)
	}

	/// Whether a signature is listed as an open known finding (so a generator may
	/// count a case as "excluded by construction").
	pub fn is_known_open(&self, sig: &str) -> bool {
		self.open_known(sig).is_some()
	}

	fn record<C: Serialize>(&self, leg: &str, case: &C, o: &Outcome) {
		let v = serde_json::to_value(case).unwrap_or(Value::Null);
		let mut legs = self.legs.lock().unwrap();
		let st = legs.entry(leg.to_string()).or_default();
		st.evaluations += 1;
		for l in &o.labels {
			*st.labels.entry(l.clone()).or_default() += 1;
		}
		if o.nontrivial {
			st.nontrivial += 1;
			let h = fnv64(v.to_string().as_bytes());
			if st.distinct_nontrivial.insert(h) && st.samples.len() < 6 {
				st.samples.push(json!({"case": v, "labels": o.labels}));
			}
		} else if st.trivial_samples.len() < 2 {
			st.trivial_samples.push(json!({"case": v, "labels": o.labels, "trivial": true}));
		}
	}

	fn note_leg(&self, leg: &str, rule: &str) {
		let mut order = self.leg_order.lock().unwrap();
		if !order.iter().any(|l| l == leg) {
			order.push(leg.to_string());
		}
		self.legs.lock().unwrap().entry(leg.to_string()).or_default().rule = rule.to_string();
	}

	/// Handle a confirmed failure (already shrunk). Returns true if it is a violation.
	fn report<C: Serialize>(&self, leg: &str, case: &C, f: Failure) -> bool {
		// "env:" signatures are failures of the sandbox itself (cannot create a temp dir, cannot write a
		// scratch file, cannot execute our own helper binary): nothing was decided, exit 2.
		if f.signature.starts_with("env:") {
			self.inconclusive(format!("leg {leg}: {} — {}", f.signature, f.message.lines().next().unwrap_or("")));
			return false;
		}
		if let Some(k) = self.open_known(&f.signature) {
			let mut hits = self.known_hits.lock().unwrap();
			let n = hits.entry(f.signature.clone()).or_default();
			if *n == 0 {
				println!("KNOWN-FINDING: property={} {} [signature={}]", self.id, k.what, k.signature);
			}
			*n += 1;
			self.legs.lock().unwrap().entry(leg.to_string()).or_default().excluded_known += 1;
			return false;
		}
		let casev = serde_json::to_value(case).unwrap_or(Value::Null);
		let rf = ReplayFile {
			property: self.id.clone(),
			leg: leg.to_string(),
			signature: f.signature.clone(),
			message: f.message.clone(),
			case: casev,
		};
		let body = serde_json::to_string_pretty(&rf).unwrap();
		let h = fnv64(body.as_bytes());
		let dir = Path::new(VERIF_ROOT).join("out").join("replays");
		let _ = std::fs::create_dir_all(&dir);
		let path = dir.join(format!("{}-{}-{:016x}.json", self.id, leg, h));
		let _ = std::fs::write(&path, body);
		let mut v = self.violations.lock().unwrap();
		// one VIOLATION line per distinct signature
		if !v.iter().any(|x| x.failure.signature == f.signature) {
			println!("VIOLATION property={} replay={}", self.id, path.display());
			println!("  leg={leg} signature={}", f.signature);
			for l in f.message.lines().take(40) {
				println!("  | {l}");
			}
		}
		v.push(Violation {
			leg: leg.to_string(),
			failure: f,
			replay: path,
		});
		true
	}

	fn run_committed_replays<C>(&self, leg: &str, run: &(dyn Fn(&C) -> Outcome + Sync))
	where
		C: Serialize + DeserializeOwned,
	{
		let dir = Path::new(VERIF_ROOT).join("replays");
		let Ok(rd) = std::fs::read_dir(&dir) else { return };
		let mut files: Vec<PathBuf> = rd
			.filter_map(|e| e.ok().map(|e| e.path()))
			.filter(|p| {
				p.file_name()
					.and_then(|n| n.to_str())
					.map_or(false, |n| n.starts_with(&format!("{}-", self.id)) && n.ends_with(".json"))
			})
			.collect();
		files.sort();
		for p in files {
			let Ok(s) = std::fs::read_to_string(&p) else { continue };
			let Ok(r) = serde_json::from_str::<ReplayFile>(&s) else {
				self.inconclusive(format!("unreadable committed replay {p:?}"));
				continue;
			};
			if r.property != self.id || r.leg != leg {
				continue;
			}
			let case: C = match serde_json::from_value(r.case) {
				Ok(c) => c,
				Err(e) => {
					self.inconclusive(format!("committed replay {p:?} does not decode: {e}"));
					continue;
				}
			};
			let o = guarded(run, &case);
			self.legs.lock().unwrap().entry(leg.to_string()).or_default().replays_run += 1;
			let mut o2 = o.clone();
			o2.label("committed-replay");
			self.record(leg, &case, &o2);
			if let Some(f) = o.failure {
				self.report(leg, &case, f);
			}
		}
	}

	/// Generated exploration of one leg.
	pub fn explore<C>(
		&self,
		leg: &str,
		opts: LegOpts,
		strategy: &(dyn Fn() -> BoxedStrategy<C> + Sync),
		run: &(dyn Fn(&C) -> Outcome + Sync),
	) where
		C: Debug + Clone + Serialize + DeserializeOwned + Send,
	{
		if leg_skipped(leg) {
			return;
		}
		if let Some((rleg, rcase)) = &self.replay {
			if rleg != leg {
				return;
			}
			self.note_leg(leg, opts.rule);
			let case: C = match serde_json::from_value(rcase.clone()) {
				Ok(c) => c,
				Err(e) => {
					self.inconclusive(format!("replay case does not decode for leg {leg}: {e}"));
					return;
				}
			};
			let o = guarded(run, &case);
			self.record(leg, &case, &o);
			println!("replayed leg={leg} labels={:?} nontrivial={}", o.labels, o.nontrivial);
			if let Some(f) = o.failure {
				self.report(leg, &case, f);
			}
			return;
		}
		self.note_leg(leg, opts.rule);
		self.run_committed_replays(leg, run);

		let shards = opts.shards.max(1);
		let per_shard = (opts.cases + shards - 1) / shards;
		let next_shard = AtomicUsize::new(0);
		let stop = AtomicBool::new(false);
		let threads = opts.threads.max(1).min(shards);
		std::thread::scope(|scope| {
			for _ in 0..threads {
				scope.spawn(|| loop {
					let shard = next_shard.fetch_add(1, Ordering::SeqCst);
					if shard >= shards || stop.load(Ordering::SeqCst) {
						break;
					}
					let rng = TestRng::from_seed(
						RngAlgorithm::ChaCha,
						&mix(self.seed, &[&self.id, leg], shard as u64),
					);
					let mut runner = TestRunner::new_with_rng(
						Config {
							failure_persistence: None,
							..Config::default()
						},
						rng,
					);
					let strat = strategy();
					for _ in 0..per_shard {
						if stop.load(Ordering::SeqCst) {
							break;
						}
						let mut tree = match strat.new_tree(&mut runner) {
							Ok(t) => t,
							Err(e) => {
								self.inconclusive(format!("generator rejected too much in leg {leg}: {e}"));
								stop.store(true, Ordering::SeqCst);
								break;
							}
						};
						let case = tree.current();
						let o = guarded(run, &case);
						self.record(leg, &case, &o);
						let Some(f) = o.failure else { continue };

						if self.open_known(&f.signature).is_some() {
							// known finding (possibly schedule-dependent): report once, keep exploring
							self.report(leg, &case, f);
							continue;
						}

						// confirm (real-time media): must reproduce with same signature
						let mut confirmed = true;
						let any_mode = opts.confirm > 0 && opts.confirm_any.iter().any(|p| f.signature.starts_with(p));
						if any_mode {
							confirmed = false;
							for _ in 0..5 {
								if matches!(guarded(run, &case).failure, Some(f2) if f2.signature == f.signature) {
									confirmed = true;
									break;
								}
							}
						} else {
							for _ in 0..opts.confirm {
								let again = guarded(run, &case);
								match again.failure {
									Some(f2) if f2.signature == f.signature => {}
									_ => {
										confirmed = false;
										break;
									}
								}
							}
						}
						if !confirmed {
							self.legs.lock().unwrap().entry(leg.to_string()).or_default().timing_anomalies += 1;
							eprintln!(
								"note: non-reproducing failure in {} leg {leg} (counted as timing anomaly): {}",
								self.id, f.signature
							);
							let dir = Path::new(VERIF_ROOT).join("out").join("anomalies");
							let _ = std::fs::create_dir_all(&dir);
							let _ = std::fs::write(
								dir.join(format!("{}-{}-{:016x}.txt", self.id, leg, fnv64(f.message.as_bytes()))),
								format!("{}\n{}\n", f.signature, f.message),
							);
							continue;
						}

						if self.open_known(&f.signature).is_some() {
							// known finding: report once, no shrinking needed, keep exploring
							self.report(leg, &case, f);
							continue;
						}

						// shrink, holding the signature fixed (probabilistic failures are reported unshrunk)
						let mut best = case.clone();
						let mut best_f = f.clone();
						let mut iters = 0;
						if !any_mode && tree.simplify() {
							loop {
								iters += 1;
								if iters > opts.max_shrink_iters {
									break;
								}
								let cand = tree.current();
								let mut o2 = guarded(run, &cand);
								let mut same = matches!(&o2.failure, Some(f2) if f2.signature == f.signature);
								if same && opts.confirm > 0 {
									// one confirmation during shrinking
									o2 = guarded(run, &cand);
									same = matches!(&o2.failure, Some(f2) if f2.signature == f.signature);
								}
								if same {
									best = cand;
									best_f = o2.failure.unwrap();
									if !tree.simplify() {
										break;
									}
								} else if !tree.complicate() {
									break;
								}
							}
						}
						if self.report(leg, &best, best_f) {
							// stop this leg at the first violation: later cases add nothing
							stop.store(true, Ordering::SeqCst);
						}
					}
				});
			}
		});
	}

	/// Enumerate a finite domain (no shrinking: each element is already minimal).
	pub fn enumerate<C, I>(
		&self,
		leg: &str,
		rule: &'static str,
		complete: bool,
		items: I,
		run: &(dyn Fn(&C) -> Outcome + Sync),
	) where
		C: Debug + Clone + Serialize + DeserializeOwned + Send + Sync,
		I: IntoIterator<Item = C>,
	{
		if leg_skipped(leg) {
			return;
		}
		if let Some((rleg, rcase)) = &self.replay {
			if rleg != leg {
				return;
			}
			self.note_leg(leg, rule);
			match serde_json::from_value::<C>(rcase.clone()) {
				Ok(case) => {
					let o = guarded(run, &case);
					self.record(leg, &case, &o);
					println!("replayed leg={leg} labels={:?} nontrivial={}", o.labels, o.nontrivial);
					if let Some(f) = o.failure {
						self.report(leg, &case, f);
					}
				}
				Err(e) => self.inconclusive(format!("replay case does not decode for leg {leg}: {e}")),
			}
			return;
		}
		self.note_leg(leg, rule);
		self.run_committed_replays(leg, run);
		let items: Vec<C> = items.into_iter().collect();
		let next = AtomicUsize::new(0);
		let failures = AtomicUsize::new(0);
		std::thread::scope(|scope| {
			for _ in 0..16 {
				scope.spawn(|| loop {
					let i = next.fetch_add(1, Ordering::SeqCst);
					if i >= items.len() || failures.load(Ordering::SeqCst) > 20 {
						break;
					}
					let case = &items[i];
					let o = guarded(run, case);
					self.record(leg, case, &o);
					if let Some(f) = o.failure {
						if self.report(leg, case, f) {
							failures.fetch_add(1, Ordering::SeqCst);
						}
					}
				});
			}
		});
		if complete && failures.load(Ordering::SeqCst) <= 20 {
			self.legs.lock().unwrap().entry(leg.to_string()).or_default().exhaustive = true;
		}
	}

	/// Coverage-guided leg (thorough tier only): runs a cargo-fuzz target whose semantic oracle is
	/// inside the target, for a fixed number of runs from a fresh corpus seeded with the committed
	/// seed files. A crash is a violation; its artifact is the replay file.
	pub fn fuzz_leg(&self, target: &str, runs: u64, max_len: u32, rule: &'static str) {
		if self.replay.is_some() || self.tier != Tier::Thorough {
			return;
		}
		let leg = format!("fuzz:{target}");
		if leg_skipped(&leg) {
			return;
		}
		self.note_leg(&leg, rule);
		let out = Path::new(VERIF_ROOT).join("out");
		let corpus = out.join("fuzz-corpus").join(format!("{target}-{}", std::process::id()));
		let _ = std::fs::remove_dir_all(&corpus);
		let _ = std::fs::create_dir_all(&corpus);
		let seeds = Path::new(VERIF_ROOT).join("fuzz").join("seeds").join(target);
		let mut n_seeds = 0;
		if let Ok(rd) = std::fs::read_dir(&seeds) {
			for e in rd.flatten() {
				if std::fs::copy(e.path(), corpus.join(e.file_name())).is_ok() {
					n_seeds += 1;
				}
			}
		}
		let artifacts = out.join("fuzz-artifacts");
		let _ = std::fs::create_dir_all(&artifacts);
		let prefix = format!("{}/{}-{}-", artifacts.display(), self.id, target);
		let res = std::process::Command::new("cargo")
			.current_dir(Path::new(VERIF_ROOT).join("harness"))
			.env("CARGO_NET_OFFLINE", "true")
			.args(["+nightly", "fuzz", "run", "--fuzz-dir"])
			.arg(Path::new(VERIF_ROOT).join("fuzz"))
			.arg(target)
			.arg(&corpus)
			.arg("--")
			.arg(format!("-runs={runs}"))
			.arg(format!("-seed={}", (self.seed % 0xffff_fffe) + 1))
			.arg("-len_control=0")
			.arg(format!("-max_len={max_len}"))
			.arg(format!("-artifact_prefix={prefix}"))
			.output();
		let _ = std::fs::remove_dir_all(&corpus);
		let output = match res {
			Ok(o) => o,
			Err(e) => {
				self.inconclusive(format!("cannot run cargo fuzz for {target}: {e}"));
				return;
			}
		};
		let text = String::from_utf8_lossy(&output.stderr).into_owned();
		let done: u64 = text
			.lines()
			.rev()
			.find_map(|l| l.strip_prefix("Done ").and_then(|r| r.split_whitespace().next()).and_then(|n| n.parse().ok()))
			.unwrap_or(0);
		let cov = text.lines().rev().find(|l| l.contains(" cov: ")).unwrap_or("").trim().to_string();
		{
			let mut legs = self.legs.lock().unwrap();
			let st = legs.entry(leg.clone()).or_default();
			st.evaluations = done as usize;
			st.samples.push(json!({"fuzz_target": target, "runs_requested": runs, "runs_done": done, "seed_files": n_seeds, "last_status_line": cov}));
		}
		if !output.status.success() {
			let artifact = text
				.lines()
				.find_map(|l| l.split("Test unit written to ").nth(1))
				.map(|p| PathBuf::from(p.trim()));
			let build_failed = text.contains("could not compile") || text.contains("error: failed to build");
			if build_failed || artifact.is_none() {
				self.inconclusive(format!("fuzz target {target} did not run to completion: {}", text.lines().rev().take(6).collect::<Vec<_>>().join(" | ")));
				return;
			}
			let artifact = artifact.unwrap();
			let panic_line = text.lines().find(|l| l.contains("panicked at")).unwrap_or("");
			let msg: String = text.lines().filter(|l| l.contains("panicked") || l.starts_with("C1") || l.contains("left:") || l.contains("right:") || l.contains("ERROR: ")).take(12).collect::<Vec<_>>().join("\n");
			println!("VIOLATION property={} replay={}", self.id, artifact.display());
			println!("  leg={leg} signature=fuzz-crash:{target}");
			for l in msg.lines() {
				println!("  | {l}");
			}
			self.violations.lock().unwrap().push(Violation {
				leg,
				failure: Failure {
					signature: format!("fuzz-crash:{target}"),
					message: format!("{panic_line}\n{msg}"),
				},
				replay: artifact,
			});
		}
	}

	/// Require that a label appears in at least `min_frac` of a leg's evaluations;
	/// otherwise the run is inconclusive (generator degenerate), never a pass.
	pub fn require_label(&self, leg: &str, label: &str, min_frac: f64) {
		if self.replay.is_some() {
			return;
		}
		let legs = self.legs.lock().unwrap();
		let Some(st) = legs.get(leg) else { return };
		if st.evaluations == 0 {
			return;
		}
		let n = st.labels.get(label).copied().unwrap_or(0);
		let frac = n as f64 / st.evaluations as f64;
		drop(legs);
		if frac < min_frac && self.violations.lock().unwrap().is_empty() {
			self.inconclusive(format!(
				"generator degenerate: label '{label}' in leg '{leg}' has share {frac:.4} < floor {min_frac}"
			));
		}
	}

	/// Write evidence and return the process exit code.
	pub fn finish(&self) -> i32 {
		let legs = self.legs.lock().unwrap();
		let order = self.leg_order.lock().unwrap();
		let violations = self.violations.lock().unwrap();
		let inconclusive = self.inconclusive.lock().unwrap();
		let mut evaluations = 0usize;
		let mut distinct = 0usize;
		let mut samples: Vec<Value> = Vec::new();
		let mut legv = serde_json::Map::new();
		let mut rules = Vec::new();
		let mut all_exhaustive = !order.is_empty();
		let mut any_exhaustive = false;
		for name in order.iter() {
			let Some(st) = legs.get(name) else { continue };
			evaluations += st.evaluations;
			distinct += st.distinct_nontrivial.len();
			for s in st.samples.iter().take(3) {
				samples.push(json!({"leg": name, "sample": s}));
			}
			if let Some(s) = st.trivial_samples.first() {
				if samples.len() < 12 {
					samples.push(json!({"leg": name, "sample": s}));
				}
			}
			all_exhaustive &= st.exhaustive;
			any_exhaustive |= st.exhaustive;
			rules.push(format!("[{name}] {}", st.rule));
			legv.insert(
				name.clone(),
				json!({
					"evaluations": st.evaluations,
					"nontrivial": st.nontrivial,
					"distinct_nontrivial": st.distinct_nontrivial.len(),
					"labels": st.labels,
					"exhaustive": st.exhaustive,
					"timing_anomalies": st.timing_anomalies,
					"excluded_known": st.excluded_known,
					"committed_replays_run": st.replays_run,
				}),
			);
		}
		let known_hits = self.known_hits.lock().unwrap();
		let mut coverage = json!({
			"evaluations": evaluations,
			"distinct_nontrivial": distinct,
			"rule": rules.join(" || "),
			"samples": samples,
			"legs": Value::Object(legv),
			"exhaustive": all_exhaustive,
			"exhaustive_legs_present": any_exhaustive,
			"known_findings_hit": &*known_hits,
			"inconclusive": &*inconclusive,
			"violation_signatures": violations.iter().map(|v| json!({"leg": v.leg, "signature": v.failure.signature, "replay": v.replay})).collect::<Vec<_>>(),
		});
		for (k, v) in self.extra.lock().unwrap().iter() {
			coverage[k] = v.clone();
		}
		let mut distinct_sigs: Vec<&str> = violations.iter().map(|v| v.failure.signature.as_str()).collect();
		distinct_sigs.sort();
		distinct_sigs.dedup();
		let ev = json!({
			"property_id": self.id,
			"tier": self.tier.name(),
			"seed": self.seed,
			"level": &*self.level.lock().unwrap(),
			"coverage": coverage,
			"assumptions": &*self.assumptions.lock().unwrap(),
			"wall_s": self.start.elapsed().as_secs_f64(),
			"violations": distinct_sigs.len(),
		});
		if self.replay.is_none() {
			// VERIF_EVIDENCE_DIR lets a sanity run write its evidence elsewhere (never used by the registered commands)
			let dir = std::env::var_os("VERIF_EVIDENCE_DIR").map_or_else(|| Path::new(VERIF_ROOT).join("evidence"), std::path::PathBuf::from);
			let _ = std::fs::create_dir_all(&dir);
			let path = dir.join(format!("{}.json", self.id));
			if let Err(e) = std::fs::write(&path, serde_json::to_string_pretty(&ev).unwrap()) {
				eprintln!("cannot write evidence {path:?}: {e}");
				return 2;
			}
		}
		println!(
			"{} tier={} seed={} evaluations={} distinct_nontrivial={} violations={} known_hits={} wall_s={:.1}",
			self.id,
			self.tier.name(),
			self.seed,
			evaluations,
			distinct,
			distinct_sigs.len(),
			known_hits.values().sum::<usize>(),
			self.start.elapsed().as_secs_f64()
		);
		if !violations.is_empty() {
			1
		} else if !inconclusive.is_empty() {
			2
		} else {
			0
		}
	}
}

/// Monotone index mapping so that shrinking a u16 towards 0 shrinks the index.
pub fn idx(i: u16, len: usize) -> usize {
	if len == 0 {
		0
	} else {
		((i as usize) * len) >> 16
	}
}
