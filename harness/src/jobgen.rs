//! Generators for supervisor job cases.

use proptest::prelude::*;

use crate::{
	jobdrive::{JobCase, Op, Step, Trace},
	sim::{ChildSpec, Ev, React, SimSpec},
};

#[derive(Clone, Copy, Debug, PartialEq, Eq)]
pub enum Profile {
	General,
	/// every step followed by a marker, 1-4 waiters, job termination ops
	Tickets,
}

/// Shared pool of millisecond values: graces, reaction delays, self-exit delays and gaps are all
/// drawn from it so that "exactly at / one tick before / after the deadline" is frequent.
pub fn ms_pool() -> impl Strategy<Value = u32> {
	prop_oneof![
		Just(0u32),
		Just(1),
		Just(2),
		Just(49),
		Just(50),
		Just(51),
		Just(99),
		Just(100),
		Just(101),
		Just(1000),
		3u32..40,
	]
}

pub fn grace() -> impl Strategy<Value = u32> {
	prop_oneof![3 => Just(50u32), 3 => Just(100), 1 => Just(0), 1 => Just(1), 1 => Just(1000), 1 => Just(10_000)]
}

pub fn gap() -> impl Strategy<Value = u32> {
	prop_oneof![6 => Just(0u32), 6 => ms_pool(), 3 => Just(20_000)]
}

pub fn child_spec() -> impl Strategy<Value = ChildSpec> {
	(
		prop_oneof![3 => Just(None), 2 => ms_pool().prop_map(Some), 1 => Just(Some(150u32))],
		prop_oneof![Just(0u8), Just(1), Just(3)],
		prop_oneof![2 => Just(React::Ignore), 5 => ms_pool().prop_map(React::ExitAfter)],
	)
		.prop_map(|(self_exit, code, react)| ChildSpec { self_exit, code, react })
}

pub fn sim_spec() -> impl Strategy<Value = SimSpec> {
	(
		proptest::collection::vec(child_spec(), 1..4),
		prop_oneof![4 => Just(vec![]), 1 => proptest::collection::vec(0u8..4, 1..3)],
		prop_oneof![6 => Just(vec![]), 1 => proptest::collection::vec(0u8..4, 1..2)],
		prop_oneof![6 => Just(vec![]), 1 => proptest::collection::vec(0u8..4, 1..2)],
	)
		.prop_map(|(children, spawn_fail, kill_fail, signal_fail)| SimSpec {
			async_api: (children.len() + spawn_fail.len() + kill_fail.len()) % 3 == 1,
			// (a suspending hook is only generated where the reference model accounts for it: C09)
			hook_delay: 0,
			kill_esrch: kill_fail.first().map_or(false, |i| i % 2 == 1),
			children,
			spawn_fail,
			kill_fail,
			signal_fail,
			wait_fail: vec![],
			kill_lag_ms: 0,
		})
}

pub fn op(profile: Profile) -> BoxedStrategy<Op> {
	let sig = 0u8..10;
	let base = prop_oneof![
		6 => Just(Op::Start),
		3 => Just(Op::Stop),
		4 => (sig.clone(), grace()).prop_map(|(sig, grace)| Op::StopSig { sig, grace }),
		3 => Just(Op::Restart),
		4 => (sig.clone(), grace()).prop_map(|(sig, grace)| Op::RestartSig { sig, grace }),
		3 => Just(Op::TryRestart),
		4 => (sig.clone(), grace()).prop_map(|(sig, grace)| Op::TryRestartSig { sig, grace }),
		2 => sig.clone().prop_map(Op::Signal),
		3 => Just(Op::ToWait),
		2 => Just(Op::Run),
		1 => ms_pool().prop_map(|delay| Op::RunAsync { delay }),
		1 => Just(Op::RawContinue),
	];
	match profile {
		Profile::General => prop_oneof![
			40 => base,
			1 => Just(Op::Delete),
			1 => Just(Op::DeleteNow),
			1 => (1u32..4).prop_map(Op::SetHook),
			1 => Just(Op::ClearHook),
			1 => Just(Op::SetErrHandler),
			1 => Just(Op::UnsetErrHandler),
		]
		.boxed(),
		Profile::Tickets => prop_oneof![
			40 => base,
			2 => Just(Op::Delete),
			2 => Just(Op::DeleteNow),
			2 => Just(Op::DropHandle),
			1 => Just(Op::SetErrHandler),
			1 => Just(Op::UnsetErrHandler),
		]
		.boxed(),
	}
}

pub fn step(profile: Profile) -> impl Strategy<Value = Step> {
	let waiters = match profile {
		Profile::General => Just(1u8).boxed(),
		Profile::Tickets => prop_oneof![2 => Just(1u8), 1 => Just(2u8), 1 => 3u8..5].boxed(),
	};
	(gap(), op(profile), waiters).prop_map(|(gap, op, waiters)| Step { gap, op, waiters })
}

pub fn job_case(profile: Profile) -> impl Strategy<Value = JobCase> {
	(
		sim_spec(),
		proptest::collection::vec(step(profile), 1..14),
		any::<u8>(),
		proptest::bool::weighted(0.7),
	)
		.prop_map(move |(sim, steps, sched, err_handler)| JobCase {
			sim,
			steps,
			track: profile == Profile::Tickets,
			sched,
			err_handler,
		})
}

pub const LIFECYCLE: &[fn() -> Op] = &[
	|| Op::Start,
	|| Op::Stop,
	|| Op::StopSig { sig: 0, grace: 100 },
	|| Op::Restart,
	|| Op::RestartSig { sig: 0, grace: 100 },
	|| Op::TryRestart,
	|| Op::TryRestartSig { sig: 0, grace: 100 },
	|| Op::Signal(4),
	|| Op::ToWait,
	|| Op::Delete,
	|| Op::DeleteNow,
	|| Op::RawContinue,
];

/// Child classes for the bounded-exhaustive legs.
pub fn child_classes() -> Vec<ChildSpec> {
	vec![
		ChildSpec { self_exit: None, code: 0, react: React::Ignore },
		ChildSpec { self_exit: None, code: 0, react: React::ExitAfter(10) },
		ChildSpec { self_exit: None, code: 0, react: React::ExitAfter(100) },
		ChildSpec { self_exit: Some(50), code: 1, react: React::ExitAfter(150) },
	]
}

pub fn exhaustive_cases(max_len: usize) -> Vec<JobCase> {
	let mut seqs: Vec<Vec<usize>> = vec![vec![]];
	let mut all: Vec<Vec<usize>> = Vec::new();
	for _ in 0..max_len {
		let mut next = Vec::new();
		for s in &seqs {
			for i in 0..LIFECYCLE.len() {
				let mut t = s.clone();
				t.push(i);
				next.push(t);
			}
		}
		all.extend(next.iter().cloned());
		seqs = next;
	}
	let mut out = Vec::new();
	for s in all {
		for (ci, class) in child_classes().into_iter().enumerate() {
			for burst in [true, false] {
				out.push(JobCase {
					sim: SimSpec {
						children: vec![class.clone()],
						..Default::default()
					},
					steps: s
						.iter()
						.enumerate()
						.map(|(k, &i)| Step {
							gap: if burst { 0 } else if k == 0 { 1 } else { 20_000 },
							op: LIFECYCLE[i](),
							waiters: 1,
						})
						.collect(),
					track: false,
					sched: (ci * 7 + s.len()) as u8,
					err_handler: true,
				});
			}
		}
	}
	out
}

pub fn fmt_log(trace: &Trace) -> String {
	let mut s = String::new();
	for r in &trace.log {
		let ev = match &r.ev {
			Ev::HookCall { marker, current, previous } => format!("hook(marker={marker:?},cur={current:?},prev={previous:?})"),
			other => format!("{other:?}"),
		};
		s.push_str(&format!("\n  {:>8.3}ms {ev}", r.t_us as f64 / 1000.0));
	}
	s
}


/// Small-time cases for the multi-thread legs: every child exits by itself within 80 ms, graces,
/// reactions and gaps are a few milliseconds, no job termination and no handle drop.
pub fn mt_case() -> impl Strategy<Value = JobCase> {
	let small = prop_oneof![Just(0u32), Just(1), Just(2), Just(5), Just(20), Just(25)];
	let child = (prop_oneof![Just(3u32), Just(20), Just(60), Just(80)], prop_oneof![2 => Just(React::Ignore), 4 => small.clone().prop_map(React::ExitAfter)])
		.prop_map(|(d, react)| ChildSpec { self_exit: Some(d), code: 1, react });
	let sig = 0u8..10;
	let grace = prop_oneof![Just(0u32), Just(1), Just(5), Just(20)];
	let op = prop_oneof![
		6 => Just(Op::Start),
		3 => Just(Op::Stop),
		4 => (sig.clone(), grace.clone()).prop_map(|(sig, grace)| Op::StopSig { sig, grace }),
		3 => Just(Op::Restart),
		4 => (sig.clone(), grace.clone()).prop_map(|(sig, grace)| Op::RestartSig { sig, grace }),
		3 => Just(Op::TryRestart),
		4 => (sig.clone(), grace.clone()).prop_map(|(sig, grace)| Op::TryRestartSig { sig, grace }),
		2 => sig.clone().prop_map(Op::Signal),
		3 => Just(Op::ToWait),
		3 => Just(Op::Run),
		1 => small.clone().prop_map(|delay| Op::RunAsync { delay }),
	];
	let step = (prop_oneof![4 => Just(0u32), 3 => small], op, 1u8..4).prop_map(|(gap, op, waiters)| Step { gap, op, waiters });
	(
		proptest::collection::vec(child, 1..4),
		prop_oneof![4 => Just(vec![]), 1 => proptest::collection::vec(0u8..4, 1..3)],
		proptest::collection::vec(step, 4..20),
		proptest::bool::weighted(0.7),
		prop_oneof![5 => Just(None), 2 => Just(Some(Op::Delete)), 2 => Just(Some(Op::DeleteNow))],
		prop_oneof![Just(0u32), Just(1), Just(5), Just(30)],
	)
		.prop_map(|(children, spawn_fail, mut steps, err_handler, term, term_gap)| {
			if let Some(op) = term {
				steps.push(Step { gap: term_gap, op, waiters: 2 });
			}
			(children, spawn_fail, steps, err_handler)
		})
		.prop_map(|(children, spawn_fail, steps, err_handler)| JobCase {
			sim: SimSpec { children, spawn_fail, ..Default::default() },
			steps,
			track: true,
			sched: 0,
			err_handler,
		})
}
