//! Recording, fault-injecting `notify::Watcher` substituted for the OS watcher through hook H1
//! (per-thread factory in `watchexec::sources::fs::verif_hooks`).

use std::{
	collections::BTreeMap,
	path::{Path, PathBuf},
	sync::{Arc, Mutex},
};

use notify::{EventHandler, RecursiveMode};
use serde::Serialize;
use watchexec::sources::fs::{verif_hooks, Watcher as Kind};

#[derive(Clone, Debug, PartialEq, Eq, Serialize)]
pub enum KindName {
	Native,
	Poll(u64),
}

pub fn kind_name(k: Kind) -> KindName {
	match k {
		Kind::Poll(d) => KindName::Poll(d.as_millis() as u64),
		_ => KindName::Native,
	}
}

#[derive(Clone, Debug, Serialize)]
pub enum Call {
	Create { id: usize, kind: KindName },
	Watch { id: usize, path: PathBuf, recursive: bool, ok: bool },
	Unwatch { id: usize, path: PathBuf, ok: bool, injected: bool },
	Drop { id: usize },
}

pub struct Instance {
	pub kind: KindName,
	pub live: bool,
	pub registered: BTreeMap<PathBuf, bool>,
	handler: Arc<Mutex<Box<dyn EventHandler>>>,
}

#[derive(Default)]
pub struct Inner {
	pub calls: Vec<Call>,
	pub instances: Vec<Instance>,
	/// one-shot failures: (path, on watch?) consumed by the next matching call
	pub fail_next: Vec<(PathBuf, bool)>,
	/// triggers: run the closure during the n-th upcoming watch/unwatch call (counted down)
	pub during: Vec<(usize, Box<dyn FnOnce() + Send>)>,
	pub max_live: usize,
	/// which notify error the injected failures carry (see `injected_error`)
	pub err_kind: u8,
	pub callback_panics: usize,
}

#[derive(Clone, Default)]
pub struct MockWorld(pub Arc<Mutex<Inner>>);

pub const ERR_KINDS: [&str; 8] = ["generic", "io:ENOENT", "io:ENOSPC", "io:EMFILE", "path-not-found", "watch-not-found", "max-files-watch", "io:EACCES"];

/// The error an injected watch / unwatch failure carries. The production code must treat every kind
/// the same way at the registration sites (report it for that path, go on with the others).
pub fn injected_error(kind: u8, what: &str, path: &Path) -> notify::Error {
	let e = match kind % 8 {
		0 => notify::Error::generic(what),
		1 => notify::Error::io(std::io::Error::from_raw_os_error(libc::ENOENT)),
		2 => notify::Error::io(std::io::Error::from_raw_os_error(libc::ENOSPC)),
		3 => notify::Error::io(std::io::Error::from_raw_os_error(libc::EMFILE)),
		4 => notify::Error::path_not_found(),
		5 => notify::Error::watch_not_found(),
		6 => notify::Error::new(notify::ErrorKind::MaxFilesWatch),
		_ => notify::Error::io(std::io::Error::from_raw_os_error(libc::EACCES)),
	};
	let mut e = e;
	for p in injected_paths(kind, path) {
		e = e.add_path(p);
	}
	e
}

/// The paths an injected failure names (bits 3-4 of the kind): the path of the call, none at all (the
/// production code then names the configured path itself), one entry below it (a recursive registration
/// that fails on a sub-directory), or two entries below it.
pub fn injected_paths(kind: u8, path: &Path) -> Vec<PathBuf> {
	match kind / 8 % 4 {
		0 => vec![path.to_path_buf()],
		1 => vec![],
		2 => vec![path.join("sub")],
		_ => vec![path.join("sub-a"), path.join("sub-b")],
	}
}

/// The paths the runtime errors of one failed call must name, one error each.
pub fn reported_paths(kind: u8, path: &Path) -> Vec<PathBuf> {
	let v = injected_paths(kind, path);
	if v.is_empty() {
		vec![path.to_path_buf()]
	} else {
		v
	}
}

struct Mock {
	id: usize,
	world: MockWorld,
}

impl MockWorld {
	/// Install the per-thread factory. Must be called on the thread that runs the fs worker.
	pub fn install(&self) {
		let world = self.clone();
		verif_hooks::set_watcher_factory(Some(Box::new(move |kind, handler| {
			let mut g = world.0.lock().unwrap();
			let id = g.instances.len();
			g.instances.push(Instance {
				kind: kind_name(kind),
				live: true,
				registered: BTreeMap::new(),
				handler: Arc::new(Mutex::new(handler)),
			});
			g.calls.push(Call::Create { id, kind: kind_name(kind) });
			let live = g.instances.iter().filter(|i| i.live).count();
			g.max_live = g.max_live.max(live);
			Ok(Box::new(Mock { id, world: world.clone() }) as Box<dyn notify::Watcher + Send>)
		})));
	}

	pub fn uninstall() {
		verif_hooks::set_watcher_factory(None);
	}

	pub fn live(&self) -> Vec<usize> {
		self.0.lock().unwrap().instances.iter().enumerate().filter(|(_, i)| i.live).map(|(k, _)| k).collect()
	}

	/// Deliver a synthetic notify event (or error) through the live watcher's handler.
	pub fn emit(&self, ev: notify::Result<notify::Event>) -> bool {
		let h = {
			let g = self.0.lock().unwrap();
			g.instances.iter().rev().find(|i| i.live).map(|i| i.handler.clone())
		};
		match h {
			Some(h) => {
				// like a real watcher, call the handler from a thread of our own, outside any async runtime
				let r = std::thread::spawn(move || {
					h.lock().unwrap_or_else(std::sync::PoisonError::into_inner).handle_event(ev);
				})
				.join();
				if r.is_err() {
					self.0.lock().unwrap().callback_panics += 1;
				}
				true
			}
			None => false,
		}
	}

	/// how often the event handler (the production callback) panicked when called from the watcher's thread
	pub fn callback_panics(&self) -> usize {
		self.0.lock().unwrap().callback_panics
	}

	fn pre_call(&self) {
		// run due "during-apply" triggers without holding the lock (they change the config)
		let due: Vec<Box<dyn FnOnce() + Send>> = {
			let mut g = self.0.lock().unwrap();
			let mut due = Vec::new();
			let mut rest = Vec::new();
			for (n, f) in g.during.drain(..) {
				if n == 0 {
					due.push(f);
				} else {
					rest.push((n - 1, f));
				}
			}
			g.during = rest;
			due
		};
		for f in due {
			f();
		}
	}
}

impl notify::Watcher for Mock {
	fn new<F: EventHandler>(_event_handler: F, _config: notify::Config) -> notify::Result<Self>
	where
		Self: Sized,
	{
		Err(notify::Error::generic("mock watchers are created by the factory"))
	}

	fn watch(&mut self, path: &Path, recursive_mode: RecursiveMode) -> notify::Result<()> {
		self.world.pre_call();
		let mut g = self.world.0.lock().unwrap();
		let recursive = matches!(recursive_mode, RecursiveMode::Recursive);
		let fail = g.fail_next.iter().position(|(p, w)| *w && p == path);
		if let Some(k) = fail {
			g.fail_next.remove(k);
			g.calls.push(Call::Watch { id: self.id, path: path.to_path_buf(), recursive, ok: false });
			return Err(injected_error(g.err_kind, "injected watch failure", path));
		}
		g.calls.push(Call::Watch { id: self.id, path: path.to_path_buf(), recursive, ok: true });
		let id = self.id;
		g.instances[id].registered.insert(path.to_path_buf(), recursive);
		Ok(())
	}

	fn unwatch(&mut self, path: &Path) -> notify::Result<()> {
		self.world.pre_call();
		let mut g = self.world.0.lock().unwrap();
		let fail = g.fail_next.iter().position(|(p, w)| !*w && p == path);
		if let Some(k) = fail {
			g.fail_next.remove(k);
			g.calls.push(Call::Unwatch { id: self.id, path: path.to_path_buf(), ok: false, injected: true });
			return Err(injected_error(g.err_kind, "injected unwatch failure", path));
		}
		let id = self.id;
		let known = g.instances[id].registered.remove(path).is_some();
		g.calls.push(Call::Unwatch { id, path: path.to_path_buf(), ok: known, injected: false });
		if known {
			Ok(())
		} else {
			Err(notify::Error::watch_not_found())
		}
	}

	fn kind() -> notify::WatcherKind
	where
		Self: Sized,
	{
		notify::WatcherKind::NullWatcher
	}
}

impl Drop for Mock {
	fn drop(&mut self) {
		let mut g = self.world.0.lock().unwrap();
		let id = self.id;
		g.instances[id].live = false;
		g.calls.push(Call::Drop { id });
	}
}
