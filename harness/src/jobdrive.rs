//! Virtual-time driver for one supervisor `Job`: interprets an operation sequence
//! against the production job task (paused tokio clock, current-thread runtime
//! with a generated select! seed) and returns everything observable.

use std::sync::{
	atomic::{AtomicU64, Ordering},
	Arc, Mutex,
};

use serde::{Deserialize, Serialize};
use tokio::{
	runtime::{Builder, RngSeed},
	time::{sleep, Duration},
};
use watchexec_signals::Signal;
use watchexec_supervisor::{
	command::{Command, Program, SpawnOptions},
	job::{start_job, CommandState, Job, Ticket},
	ProcessEnd,
};

use crate::sim::{kind_of, Rec, SimSpec, StateKind, World};

/// Signals selectable in cases: (Signal, OS number that must be delivered).
pub const SIGNALS: &[(Signal, i32)] = &[
	(Signal::Terminate, 15),
	(Signal::Interrupt, 2),
	(Signal::Hangup, 1),
	(Signal::Quit, 3),
	(Signal::User1, 10),
	(Signal::User2, 12),
	(Signal::ForceStop, 9),
	(Signal::Custom(28), 28),
	(Signal::Custom(6), 6),
	(Signal::Custom(19), 19),
	// indices 10.. : numbers nix cannot represent. Which signal (if any) is delivered for them is
	// not settled by the properties (-1 = unasserted); only C06 generates them, with a child that
	// ignores signals, to check that the rest of the graceful-stop contract still holds.
	(Signal::Custom(0), -1),
	(Signal::Custom(40), -1),
	(Signal::Custom(999), -1),
];
// Numbers nix cannot represent (0, real-time signals, out of range) are left out of the domain:
// the docs say they are "ignored", the code falls back to SIGTERM; the properties do not settle it.

pub fn sig(i: u8) -> (Signal, i32) {
	SIGNALS[(i as usize) % SIGNALS.len()]
}

#[derive(Clone, Debug, Serialize, Deserialize, PartialEq, Eq)]
pub enum Op {
	Start,
	Stop,
	StopSig { sig: u8, grace: u32 },
	Restart,
	RestartSig { sig: u8, grace: u32 },
	TryRestart,
	TryRestartSig { sig: u8, grace: u32 },
	Signal(u8),
	ToWait,
	Delete,
	DeleteNow,
	/// marker + state probe (normal priority)
	Run,
	/// marker that keeps the job task busy for `delay` ms
	RunAsync { delay: u32 },
	SetHook(u32),
	/// install the plain simulating hook (no marker)
	ClearHook,
	SetErrHandler,
	UnsetErrHandler,
	/// drop the driver's handle to the job (last handle)
	DropHandle,
	/// `Job::control(Control::ContinueTryGracefulRestart)`: the public escape hatch, sending the
	/// control the grace timer normally produces
	RawContinue,
	/// `Job::control(Control::NextEnding)`: the wait-for-end control sent through the public escape hatch,
	/// which (unlike `to_wait()`) queues it at normal priority, in order with the other normal controls
	RawNextEnding,
}

impl Op {
	pub fn is_graceful(&self) -> bool {
		matches!(self, Op::StopSig { .. } | Op::RestartSig { .. } | Op::TryRestartSig { .. })
	}
	pub fn name(&self) -> &'static str {
		match self {
			Op::Start => "start",
			Op::Stop => "stop",
			Op::StopSig { .. } => "stop_with_signal",
			Op::Restart => "restart",
			Op::RestartSig { .. } => "restart_with_signal",
			Op::TryRestart => "try_restart",
			Op::TryRestartSig { .. } => "try_restart_with_signal",
			Op::Signal(_) => "signal",
			Op::ToWait => "to_wait",
			Op::Delete => "delete",
			Op::DeleteNow => "delete_now",
			Op::Run => "run",
			Op::RunAsync { .. } => "run_async",
			Op::SetHook(_) => "set_spawn_hook",
			Op::ClearHook => "clear_hook",
			Op::SetErrHandler => "set_error_handler",
			Op::UnsetErrHandler => "unset_error_handler",
			Op::DropHandle => "drop_handle",
			Op::RawContinue => "control(ContinueTryGracefulRestart)",
			Op::RawNextEnding => "control(NextEnding)",
		}
	}
}

#[derive(Clone, Debug, Serialize, Deserialize, PartialEq, Eq)]
pub struct Step {
	/// virtual ms to wait before sending
	pub gap: u32,
	pub op: Op,
	/// number of tasks awaiting (clones of) the ticket, 1..=4
	pub waiters: u8,
}

#[derive(Clone, Debug, Serialize, Deserialize)]
pub struct JobCase {
	pub sim: SimSpec,
	pub steps: Vec<Step>,
	/// send a `run` marker right behind every step (C07 completion bound)
	pub track: bool,
	/// seed for tokio's select! branch order
	pub sched: u8,
	/// install an error handler at the start
	pub err_handler: bool,
}

#[derive(Clone, Debug, Serialize)]
pub struct MarkerObs {
	pub step: usize,
	/// true when this is the automatic marker sent behind `step`
	pub behind: bool,
	pub t_ms: u64,
	pub seq: u64,
	pub current: StateKind,
	pub previous: Option<StateKind>,
	/// Finished status of current, if finished
	pub status: Option<String>,
	pub prev_status: Option<String>,
}

#[derive(Clone, Debug, Serialize)]
pub struct StepObs {
	pub step: usize,
	pub sent_ms: u64,
	/// false when the handle had been dropped (op not sent)
	pub sent: bool,
	/// completion instant per waiter (None = never completed)
	pub waiters: Vec<Option<u64>>,
	/// completion instant of the ticket of the marker sent behind (track mode)
	pub behind_ticket: Option<Option<u64>>,
}

#[derive(Clone, Debug, Serialize)]
pub struct Trace {
	pub log: Vec<Rec>,
	pub steps: Vec<StepObs>,
	pub markers: Vec<MarkerObs>,
	/// (virtual ms, panicked) when the job task's JoinHandle completed
	pub task_end: Option<(u64, bool)>,
	pub is_dead_at_end: Option<bool>,
	pub end_ms: u64,
}

pub const FINAL_SETTLE_MS: u64 = 3_600_000;

fn status_str(s: &CommandState) -> Option<String> {
	match s {
		CommandState::Finished { status, .. } => Some(match status {
			ProcessEnd::Success => "success".to_string(),
			ProcessEnd::ExitError(c) => format!("error({c})"),
			ProcessEnd::ExitSignal(s) => format!("signal({})", s.to_nix().map_or(-1, |n| n as i32)),
			ProcessEnd::ExitStop(c) => format!("stop({c})"),
			ProcessEnd::Exception(c) => format!("exception({c})"),
			ProcessEnd::Continued => "continued".to_string(),
		}),
		_ => None,
	}
}

struct Shared {
	markers: Mutex<Vec<MarkerObs>>,
	seq: AtomicU64,
	waits: Mutex<Vec<(usize, usize, u64)>>,
	behind: Mutex<Vec<(usize, u64)>>,
}

fn marker_fn(shared: Arc<Shared>, world: World, step: usize, behind: bool) -> impl FnOnce(&watchexec_supervisor::job::JobTaskContext<'_>) + Send + Sync + 'static {
	move |ctx| {
		let seq = shared.seq.fetch_add(1, Ordering::SeqCst);
		shared.markers.lock().unwrap().push(MarkerObs {
			step,
			behind,
			t_ms: world.now_ms(),
			seq,
			current: kind_of(ctx.current),
			previous: ctx.previous.map(kind_of),
			status: status_str(ctx.current),
			prev_status: ctx.previous.and_then(status_str),
		});
	}
}

fn send(job: &Job, op: &Op, shared: &Arc<Shared>, world: &World, step: usize) -> Ticket {
	match op {
		Op::Start => job.start(),
		Op::Stop => job.stop(),
		Op::StopSig { sig: s, grace } => job.stop_with_signal(sig(*s).0, Duration::from_millis(u64::from(*grace))),
		Op::Restart => job.restart(),
		Op::RestartSig { sig: s, grace } => job.restart_with_signal(sig(*s).0, Duration::from_millis(u64::from(*grace))),
		Op::TryRestart => job.try_restart(),
		Op::TryRestartSig { sig: s, grace } => job.try_restart_with_signal(sig(*s).0, Duration::from_millis(u64::from(*grace))),
		Op::Signal(s) => job.signal(sig(*s).0),
		Op::ToWait => job.to_wait(),
		Op::Delete => job.delete(),
		Op::DeleteNow => job.delete_now(),
		Op::Run => job.run(marker_fn(shared.clone(), world.clone(), step, false)),
		Op::RunAsync { delay } => {
			let f = marker_fn(shared.clone(), world.clone(), step, false);
			let delay = u64::from(*delay);
			job.run_async(move |ctx| {
				f(ctx);
				Box::new(async move {
					if delay > 0 {
						sleep(Duration::from_millis(delay)).await;
					}
				})
			})
		}
		Op::SetHook(m) => world.set_hook(job, Some(*m)),
		Op::ClearHook => world.set_hook(job, None),
		Op::SetErrHandler => world.set_error_handler(job),
		Op::UnsetErrHandler => job.unset_error_handler(),
		Op::DropHandle => unreachable!(),
		Op::RawContinue => job.control(watchexec_supervisor::job::Control::ContinueTryGracefulRestart),
		Op::RawNextEnding => job.control(watchexec_supervisor::job::Control::NextEnding),
	}
}

pub fn run_case(case: &JobCase) -> Trace {
	let mut seed = [0u8; 32];
	seed[0] = case.sched;
	seed[1] = 0x5a;
	let rt = Builder::new_current_thread()
		.enable_all()
		.start_paused(true)
		.rng_seed(RngSeed::from_bytes(&seed))
		.build()
		.expect("runtime");
	let trace = rt.block_on(async {
		let world = World::new(case.sim.clone());
		let shared = Arc::new(Shared {
			markers: Mutex::new(Vec::new()),
			seq: AtomicU64::new(0),
			waits: Mutex::new(Vec::new()),
			behind: Mutex::new(Vec::new()),
		});
		let command = Arc::new(Command {
			program: Program::Exec {
				prog: "/bin/true".into(),
				args: Vec::new(),
			},
			options: SpawnOptions::default(),
		});
		let (job, task) = start_job(command);
		let task_end: Arc<Mutex<Option<(u64, bool)>>> = Arc::new(Mutex::new(None));
		{
			let task_end = task_end.clone();
			let world = world.clone();
			tokio::spawn(async move {
				let res = task.await;
				let panicked = res.as_ref().err().map_or(false, |e| e.is_panic());
				*task_end.lock().unwrap() = Some((world.now_ms(), panicked));
			});
		}
		let probe = job.clone();
		let mut job = Some(job);
		// install the simulating hook (and optionally an error handler) first
		if let Some(j) = &job {
			world.set_hook(&j, None);
			if case.err_handler {
				world.set_error_handler(&j);
			}
		}
		// `probe` must not keep the control queue open when the case drops its handle:
		// we only keep it for is_dead(), so drop it when DropHandle happens too.
		let mut probe = Some(probe);

		let mut steps = Vec::new();
		for (i, st) in case.steps.iter().enumerate() {
			if st.gap > 0 {
				sleep(Duration::from_millis(u64::from(st.gap))).await;
			}
			let sent_ms = world.now_ms();
			if st.op == Op::DropHandle && job.is_some() {
				job = None;
				probe = None;
				steps.push(StepObs {
					step: i,
					sent_ms,
					sent: true,
					waiters: Vec::new(),
					behind_ticket: None,
				});
				continue;
			}
			let Some(j) = &job else {
				steps.push(StepObs {
					step: i,
					sent_ms,
					sent: false,
					waiters: Vec::new(),
					behind_ticket: None,
				});
				continue;
			};
			let ticket = send(j, &st.op, &shared, &world, i);
			let n = st.waiters.clamp(1, 4) as usize;
			for w in 0..n {
				let t = ticket.clone();
				let shared = shared.clone();
				let world = world.clone();
				tokio::spawn(async move {
					t.await;
					shared.waits.lock().unwrap().push((i, w, world.now_ms()));
				});
			}
			let mut behind_ticket = None;
			if case.track {
				let t = j.run(marker_fn(shared.clone(), world.clone(), i, true));
				let shared = shared.clone();
				let world = world.clone();
				tokio::spawn(async move {
					t.await;
					shared.behind.lock().unwrap().push((i, world.now_ms()));
				});
				behind_ticket = Some(None);
			}
			steps.push(StepObs {
				step: i,
				sent_ms,
				sent: true,
				waiters: vec![None; n],
				behind_ticket,
			});
		}
		sleep(Duration::from_millis(FINAL_SETTLE_MS)).await;
		let is_dead_at_end = probe.as_ref().map(Job::is_dead);
		for (i, w, t) in shared.waits.lock().unwrap().iter() {
			steps[*i].waiters[*w] = Some(*t);
		}
		for (i, t) in shared.behind.lock().unwrap().iter() {
			steps[*i].behind_ticket = Some(Some(*t));
		}
		let markers = shared.markers.lock().unwrap().clone();
		let end_ms = world.now_ms();
		let te = *task_end.lock().unwrap();
		drop(job);
		drop(probe);
		Trace {
			log: world.log(),
			steps,
			markers,
			task_end: te,
			is_dead_at_end,
			end_ms,
		}
	});
	drop(rt);
	trace
}


/// Multi-thread variant: the same operations sent from `senders` concurrent tasks on a
/// multi-thread runtime with real (millisecond) timers. The schedule is whatever the OS produces;
/// only schedule-independent invariants may be asserted on the result. Children must all exit by
/// themselves eventually so that the run quiesces; `settle_ms` of real time is waited at the end.
pub fn run_case_mt(case: &JobCase, senders: usize, settle_ms: u64) -> Trace {
	let rt = Builder::new_multi_thread().worker_threads(4).enable_all().build().expect("runtime");
	let trace = rt.block_on(async {
		let world = World::new(case.sim.clone());
		let shared = Arc::new(Shared {
			markers: Mutex::new(Vec::new()),
			seq: AtomicU64::new(0),
			waits: Mutex::new(Vec::new()),
			behind: Mutex::new(Vec::new()),
		});
		let command = Arc::new(Command {
			program: Program::Exec {
				prog: "/bin/true".into(),
				args: Vec::new(),
			},
			options: SpawnOptions::default(),
		});
		let (job, task) = start_job(command);
		let task_end: Arc<Mutex<Option<(u64, bool)>>> = Arc::new(Mutex::new(None));
		{
			let task_end = task_end.clone();
			let world = world.clone();
			tokio::spawn(async move {
				let res = task.await;
				let panicked = res.as_ref().err().map_or(false, |e| e.is_panic());
				*task_end.lock().unwrap() = Some((world.now_ms(), panicked));
			});
		}
		world.set_hook(&job, None).await;
		if case.err_handler {
			world.set_error_handler(&job).await;
		}
		let n = case.steps.len();
		let steps_obs: Arc<Mutex<Vec<StepObs>>> = Arc::new(Mutex::new(
			(0..n).map(|i| StepObs { step: i, sent_ms: 0, sent: false, waiters: Vec::new(), behind_ticket: None }).collect(),
		));
		let senders = senders.clamp(1, 4);
		let mut handles = Vec::new();
		for sidx in 0..senders {
			let job = job.clone();
			let world = world.clone();
			let shared = shared.clone();
			let steps: Vec<(usize, Step)> = case.steps.iter().cloned().enumerate().filter(|(i, _)| i % senders == sidx).collect();
			let steps_obs = steps_obs.clone();
			let track = case.track;
			handles.push(tokio::spawn(async move {
				for (i, st) in steps {
					if st.gap > 0 {
						sleep(Duration::from_millis(u64::from(st.gap))).await;
					}
					if matches!(st.op, Op::DropHandle | Op::Delete | Op::DeleteNow) {
						// terminations are sent by the main task once every sender is done (below)
						continue;
					}
					let sent_ms = world.now_ms();
					let ticket = send(&job, &st.op, &shared, &world, i);
					let nw = st.waiters.clamp(1, 4) as usize;
					for w in 0..nw {
						let t = ticket.clone();
						let shared = shared.clone();
						let world = world.clone();
						tokio::spawn(async move {
							t.await;
							shared.waits.lock().unwrap().push((i, w, world.now_ms()));
						});
					}
					let mut behind_ticket = None;
					if track {
						let t = job.run(marker_fn(shared.clone(), world.clone(), i, true));
						let shared = shared.clone();
						let world = world.clone();
						tokio::spawn(async move {
							t.await;
							shared.behind.lock().unwrap().push((i, world.now_ms()));
						});
						behind_ticket = Some(None);
					}
					let mut so = steps_obs.lock().unwrap();
					so[i].sent = true;
					so[i].sent_ms = sent_ms;
					so[i].waiters = vec![None; nw];
					so[i].behind_ticket = behind_ticket;
				}
			}));
		}
		for h in handles {
			let _ = h.await;
		}
		// One termination, if the case has any, goes out after every sender has finished, typically with a
		// process still running and tickets outstanding.
		if let Some((i, st)) = case.steps.iter().enumerate().find(|(_, s)| matches!(s.op, Op::Delete | Op::DeleteNow)) {
			if st.gap > 0 {
				sleep(Duration::from_millis(u64::from(st.gap))).await;
			}
			let sent_ms = world.now_ms();
			let ticket = send(&job, &st.op, &shared, &world, i);
			let nw = st.waiters.clamp(1, 4) as usize;
			for w in 0..nw {
				let t = ticket.clone();
				let shared = shared.clone();
				let world = world.clone();
				tokio::spawn(async move {
					t.await;
					shared.waits.lock().unwrap().push((i, w, world.now_ms()));
				});
			}
			let mut so = steps_obs.lock().unwrap();
			so[i].sent = true;
			so[i].sent_ms = sent_ms;
			so[i].waiters = vec![None; nw];
		}
		// Quiescence: poll until every ticket has resolved and every process has ended (then a short
		// extra wait so that late duplicates are seen), or give up after `settle_ms` of real time.
		let expected_waits: usize = steps_obs.lock().unwrap().iter().map(|s| s.waiters.len()).sum();
		let expected_behind = steps_obs.lock().unwrap().iter().filter(|s| s.behind_ticket.is_some()).count();
		let deadline = tokio::time::Instant::now() + Duration::from_millis(settle_ms);
		loop {
			let done = shared.waits.lock().unwrap().len() >= expected_waits && shared.behind.lock().unwrap().len() >= expected_behind;
			if done || tokio::time::Instant::now() >= deadline {
				break;
			}
			sleep(Duration::from_millis(5)).await;
		}
		sleep(Duration::from_millis(40)).await;
		let is_dead_at_end = Some(job.is_dead());
		let mut steps = steps_obs.lock().unwrap().clone();
		for (i, w, t) in shared.waits.lock().unwrap().iter() {
			steps[*i].waiters[*w] = Some(*t);
		}
		for (i, t) in shared.behind.lock().unwrap().iter() {
			steps[*i].behind_ticket = Some(Some(*t));
		}
		let markers = shared.markers.lock().unwrap().clone();
		let end_ms = world.now_ms();
		let te = *task_end.lock().unwrap();
		let log = world.log();
		job.delete_now();
		Trace {
			log,
			steps,
			markers,
			task_end: te,
			is_dead_at_end,
			end_ms,
		}
	});
	rt.shutdown_timeout(std::time::Duration::from_millis(300));
	trace
}
