//! Verification harness for watchexec: property-based testing and fuzzing.
pub mod engine;
pub mod props;
