//! Verification harness for watchexec: property-based testing and fuzzing.
pub mod engine;
pub mod gitmodel;
pub mod patgen;
pub mod jobdrive;
pub mod mockwatch;
pub mod jobgen;
pub mod jobmodel;
pub mod props;
pub mod sim;
pub mod wxrun;
