//! Executable reference model of the documented `Job` semantics (C09), written from the
//! `Job` / `Control` / crate-level docs. It never calls the code under test: it is an event
//! simulation over the same case description (send instants, simulated-child behaviours, injected
//! faults) and predicts the child-call log, marker observations, ticket resolution instants and
//! the job task's end. Where the outcome depends on which of two simultaneous events the job task
//! sees first (child exit vs. pending control, same-tick arrivals), the model reports the case as
//! `ambiguous` instead of guessing.

use std::collections::VecDeque;

use serde::Serialize;

use crate::{
	jobdrive::{sig, JobCase, Op},
	sim::{ChildSpec, React, StateKind},
};

#[derive(Clone, Debug, PartialEq, Eq, Serialize)]
pub enum MEv {
	Hook { marker: Option<u32>, current: StateKind, previous: Option<StateKind> },
	SpawnAttempt { idx: usize, marker: Option<u32> },
	SpawnFailed { idx: usize },
	Spawned { child: usize },
	Signal { child: usize, sig: i32, ok: bool },
	StartKill { child: usize, ok: bool },
	Reaped { child: usize, raw: i32 },
	ErrorHandler,
	/// running child handle dropped without its status collected (job task ended)
	DroppedRunning { child: usize },
}

#[derive(Clone, Debug, PartialEq, Eq, Serialize)]
pub struct MMarker {
	pub step: usize,
	pub t_ms: u64,
	pub current: StateKind,
	pub previous: Option<StateKind>,
	pub status: Option<String>,
	pub prev_status: Option<String>,
}

#[derive(Clone, Debug, Default, Serialize)]
pub struct ModelOut {
	pub ambiguous: Option<String>,
	pub log: Vec<(u64, MEv)>,
	/// per step: Some(instant) the ticket resolves at, None = never
	pub tickets: Vec<Option<u64>>,
	pub sent: Vec<bool>,
	pub markers: Vec<MMarker>,
	pub task_end: Option<u64>,
	pub final_state: Option<StateKind>,
	pub states_visited: Vec<StateKind>,
}

#[derive(Clone, Debug)]
enum Ctrl {
	Start,
	Stop,
	GracefulStop { sig: i32, grace: u64 },
	TryRestart,
	TryGracefulRestart { sig: i32, grace: u64 },
	ContinueTryGracefulRestart,
	Signal(i32),
	Delete,
	NextEnding,
	Marker,
	AsyncMarker(u64),
	SetHook(Option<u32>),
	SetErr(bool),
}

#[derive(Clone, Debug)]
struct Msg {
	ctrl: Ctrl,
	/// step whose ticket this control carries (None for the non-final controls of a multi-control op)
	ticket: Option<usize>,
	step: usize,
}

#[derive(Clone, Debug, PartialEq)]
enum St {
	Pending,
	Running(usize),
	Finished(i32),
}

fn kind(s: &St) -> StateKind {
	match s {
		St::Pending => StateKind::Pending,
		St::Running(_) => StateKind::Running,
		St::Finished(_) => StateKind::Finished,
	}
}

pub fn status_of_raw(raw: i32) -> String {
	let low = raw & 0x7f;
	if low == 0 {
		let code = (raw >> 8) & 0xff;
		if code == 0 {
			"success".into()
		} else {
			format!("error({code})")
		}
	} else {
		format!("signal({low})")
	}
}

struct MChild {
	spec: ChildSpec,
	exit: Option<(u64, i32)>,
	signalled: bool,
}

struct Timer {
	deadline: u64,
	restart: bool,
	/// step whose ticket the timer holds (None: the unobserved first half of restart_with_signal)
	step: Option<usize>,
}

struct M<'a> {
	case: &'a JobCase,
	now: u64,
	st: St,
	prev: Option<St>,
	timer: Option<Timer>,
	on_end: Vec<usize>,
	on_end_restart: Option<usize>,
	hook: Option<u32>,
	err: bool,
	children: Vec<MChild>,
	attempts: usize,
	kills: usize,
	signals: usize,
	urgent: VecDeque<Msg>,
	high: VecDeque<Msg>,
	normal: VecDeque<Msg>,
	out: ModelOut,
	closed: bool,
	busy_until: Option<u64>,
	sent_at: Vec<u64>,
}

impl<'a> M<'a> {
	fn rec(&mut self, ev: MEv) {
		self.out.log.push((self.now, ev));
	}

	fn visit(&mut self) {
		let k = kind(&self.st);
		if self.out.states_visited.last() != Some(&k) {
			self.out.states_visited.push(k);
		}
	}

	fn resolve(&mut self, step: Option<usize>) {
		if let Some(s) = step {
			if self.out.tickets[s].is_none() {
				self.out.tickets[s] = Some(self.now);
			}
		}
	}

	fn error(&mut self) {
		if self.err {
			self.rec(MEv::ErrorHandler);
		}
	}

	fn sched_exit(c: &mut MChild, at: u64, raw: i32) {
		match c.exit {
			Some((t, _)) if t <= at => {}
			_ => c.exit = Some((at, raw)),
		}
	}

	fn alive(&self, c: usize) -> bool {
		match self.children[c].exit {
			Some((t, _)) => self.now < t,
			None => true,
		}
	}

	/// reset + hook + spawn. Returns Ok(()) on success.
	fn spawn_seq(&mut self) -> Result<(), ()> {
		let before = self.st.clone();
		self.prev = Some(match before {
			St::Running(_) => St::Finished(0xffff),
			other => other,
		});
		self.st = St::Pending;
		self.visit();
		let prev_kind = self.prev.as_ref().map(kind);
		self.rec(MEv::Hook {
			marker: self.hook,
			current: StateKind::Pending,
			previous: prev_kind,
		});
		// an async spawn hook that suspends keeps the task busy before the spawn goes on
		if self.case.sim.async_api && self.case.sim.hook_delay > 0 {
			self.now += u64::from(self.case.sim.hook_delay);
			self.busy_until = Some(self.now);
		}
		let idx = self.attempts;
		self.attempts += 1;
		self.rec(MEv::SpawnAttempt { idx, marker: self.hook });
		if self.case.sim.spawn_fail.iter().any(|&i| i as usize == idx) {
			self.rec(MEv::SpawnFailed { idx });
			self.error();
			return Err(());
		}
		let spec = self.case.sim.child(idx);
		let child = self.children.len();
		let exit = spec.self_exit.map(|ms| (self.now + u64::from(ms), i32::from(spec.code) << 8));
		self.children.push(MChild {
			spec,
			exit,
			signalled: false,
		});
		self.rec(MEv::Spawned { child });
		self.st = St::Running(child);
		self.visit();
		Ok(())
	}

	/// kill() + wait(): Ok(raw status) or Err after the error handler ran.
	fn kill_seq(&mut self, c: usize) -> Result<i32, ()> {
		let k = self.kills;
		self.kills += 1;
		if self.case.sim.kill_fail.iter().any(|&i| i as usize == k) {
			self.rec(MEv::StartKill { child: c, ok: false });
			self.error();
			return Err(());
		}
		self.rec(MEv::StartKill { child: c, ok: true });
		let now = self.now;
		Self::sched_exit(&mut self.children[c], now, 9);
		let raw = self.children[c].exit.unwrap().1;
		self.rec(MEv::Reaped { child: c, raw });
		Ok(raw)
	}

	fn signal_seq(&mut self, c: usize, sig: i32) -> Result<(), ()> {
		let k = self.signals;
		self.signals += 1;
		if self.case.sim.signal_fail.iter().any(|&i| i as usize == k) {
			self.rec(MEv::Signal { child: c, sig, ok: false });
			self.error();
			return Err(());
		}
		self.rec(MEv::Signal { child: c, sig, ok: true });
		if self.alive(c) {
			let now = self.now;
			let ch = &mut self.children[c];
			if sig == 9 {
				Self::sched_exit(ch, now, 9);
			} else if sig != 19 && sig != 18 && sig != 0 {
				if let React::ExitAfter(ms) = ch.spec.react {
					if !ch.signalled {
						ch.signalled = true;
						Self::sched_exit(ch, now + u64::from(ms), sig & 0x7f);
					}
				}
			}
		}
		Ok(())
	}

	fn raise_on_end(&mut self) {
		for s in std::mem::take(&mut self.on_end) {
			self.resolve(Some(s));
		}
	}

	fn finish(&mut self, raw: i32) {
		self.st = St::Finished(raw);
		self.visit();
	}

	fn marker(&mut self, step: usize) {
		let status = match &self.st {
			St::Finished(r) => Some(status_of_raw(*r)),
			_ => None,
		};
		let prev_status = match &self.prev {
			Some(St::Finished(r)) => Some(if *r == 0xffff { "continued".to_string() } else { status_of_raw(*r) }),
			_ => None,
		};
		self.out.markers.push(MMarker {
			step,
			t_ms: self.now,
			current: kind(&self.st),
			previous: self.prev.as_ref().map(kind),
			status,
			prev_status,
		});
	}

	fn end_task(&mut self) {
		if let St::Running(c) = self.st {
			self.rec(MEv::DroppedRunning { child: c });
		}
		self.out.task_end = Some(self.now);
		for i in 0..self.out.tickets.len() {
			if self.out.sent[i] && self.out.tickets[i].is_none() {
				// only tickets of steps already sent are outstanding
				if self.case_sent_time(i) <= self.now {
					self.out.tickets[i] = Some(self.now);
				}
			}
		}
	}

	fn case_sent_time(&self, step: usize) -> u64 {
		self.sent_at[step]
	}

	fn handle_end(&mut self, c: usize) {
		let raw = self.children[c].exit.unwrap().1;
		self.rec(MEv::Reaped { child: c, raw });
		self.finish(raw);
		if let Some(t) = self.timer.take() {
			if !t.restart {
				self.resolve(t.step);
			}
		}
		self.raise_on_end();
		if let Some(step) = self.on_end_restart.take() {
			let _ = self.spawn_seq();
			self.resolve(Some(step));
		}
	}

	/// Returns false when the task ended.
	fn handle(&mut self, m: Msg) -> bool {
		match m.ctrl {
			Ctrl::Start => {
				if !matches!(self.st, St::Running(_)) {
					let _ = self.spawn_seq();
				}
			}
			Ctrl::Stop => {
				if let St::Running(c) = self.st {
					if let Ok(raw) = self.kill_seq(c) {
						self.finish(raw);
						self.raise_on_end();
					}
				}
			}
			Ctrl::GracefulStop { sig, grace } => {
				if let St::Running(c) = self.st {
					if self.signal_seq(c, sig).is_ok() {
						self.timer = Some(Timer {
							deadline: self.now + grace,
							restart: false,
							step: m.ticket,
						});
						return true;
					}
				}
			}
			Ctrl::TryRestart => {
				if let St::Running(c) = self.st {
					if let Ok(raw) = self.kill_seq(c) {
						self.finish(raw);
						self.raise_on_end();
						let _ = self.spawn_seq();
					}
				}
			}
			Ctrl::TryGracefulRestart { sig, grace } => {
				if let St::Running(c) = self.st {
					if self.signal_seq(c, sig).is_ok() {
						self.timer = Some(Timer {
							deadline: self.now + grace,
							restart: true,
							step: Some(m.step),
						});
						self.on_end_restart = Some(m.step);
						return true;
					}
				}
			}
			Ctrl::ContinueTryGracefulRestart => {
				let mut ok = true;
				if let St::Running(c) = self.st {
					match self.kill_seq(c) {
						Ok(raw) => {
							self.finish(raw);
							self.raise_on_end();
						}
						Err(()) => ok = false,
					}
				}
				if ok {
					// the restart is being carried out now: nothing is left to do at the next end
					self.on_end_restart = None;
					let _ = self.spawn_seq();
				}
			}
			Ctrl::Signal(sig) => {
				if let St::Running(c) = self.st {
					let _ = self.signal_seq(c, sig);
				}
			}
			Ctrl::Delete => {
				self.resolve(m.ticket);
				self.end_task();
				return false;
			}
			Ctrl::NextEnding => {
				if matches!(self.st, St::Running(_)) {
					self.on_end.push(m.step);
					return true;
				}
			}
			Ctrl::Marker => self.marker(m.step),
			Ctrl::AsyncMarker(d) => {
				self.marker(m.step);
				if d > 0 {
					self.now += d;
					self.busy_until = Some(self.now);
				}
			}
			Ctrl::SetHook(h) => self.hook = h,
			Ctrl::SetErr(e) => self.err = e,
		}
		self.resolve(m.ticket);
		true
	}
}

pub fn predict(case: &JobCase) -> ModelOut {
	let n = case.steps.len();
	let mut arrivals = Vec::with_capacity(n);
	let mut t = 0u64;
	for s in &case.steps {
		t += u64::from(s.gap);
		arrivals.push(t);
	}
	let mut m = M {
		case,
		now: 0,
		st: St::Pending,
		prev: None,
		timer: None,
		on_end: Vec::new(),
		on_end_restart: None,
		hook: None,
		err: false,
		children: Vec::new(),
		attempts: 0,
		kills: 0,
		signals: 0,
		urgent: VecDeque::new(),
		high: VecDeque::new(),
		normal: VecDeque::new(),
		out: ModelOut {
			tickets: vec![None; n],
			sent: vec![false; n],
			states_visited: vec![StateKind::Pending],
			..Default::default()
		},
		closed: false,
		busy_until: None,
		sent_at: arrivals.clone(),
	};
	// the driver installs the simulating hook (and optionally an error handler) first
	m.normal.push_back(Msg { ctrl: Ctrl::SetHook(None), ticket: None, step: usize::MAX });
	if case.err_handler {
		m.normal.push_back(Msg { ctrl: Ctrl::SetErr(true), ticket: None, step: usize::MAX });
	}
	let mut next_arr = 0usize;
	let mut ended = false;
	let mut guard = 0usize;
	// true while the job task is parked inside its select!: the first control it picks up after
	// being woken is chosen at random among the ready queues (the urgent > high > normal
	// preference only applies when the task looks at its queues afresh)
	let mut parked = false;
	loop {
		guard += 1;
		if guard > 100_000 {
			m.out.ambiguous = Some("model did not terminate".into());
			break;
		}
		while next_arr < n && arrivals[next_arr] <= m.now {
			let i = next_arr;
			let at = arrivals[i];
			next_arr += 1;
			if m.closed {
				continue;
			}
			m.out.sent[i] = true;
			let op = &case.steps[i].op;
			if *op == Op::DropHandle {
				m.closed = true;
				continue;
			}
			if ended {
				m.out.tickets[i] = Some(at);
				continue;
			}
			if m.busy_until == Some(at) {
				m.out.ambiguous.get_or_insert_with(|| format!("step {i} arrives at the instant a run_async completes ({at} ms)"));
			}
			let (prio, msgs) = controls_of(op, i);
			for msg in msgs {
				match prio {
					2 => m.urgent.push_back(msg),
					1 => m.high.push_back(msg),
					_ => m.normal.push_back(msg),
				}
			}
		}
		if ended {
			if next_arr >= n {
				break;
			}
			m.now = arrivals[next_arr];
			continue;
		}
		let exit_now = match m.st {
			St::Running(c) => m.children[c].exit.map_or(false, |(t, _)| t <= m.now),
			_ => false,
		};
		let timer_past = m.timer.as_ref().map_or(false, |t| t.deadline <= m.now);
		let queues_empty = m.urgent.is_empty() && m.high.is_empty() && m.normal.is_empty();
		let recv_ready = timer_past || !m.urgent.is_empty() || !m.high.is_empty() || (m.timer.is_none() && !m.normal.is_empty());
		let closed_none = m.closed && queues_empty && m.timer.is_none();
		if exit_now && (recv_ready || closed_none) {
			m.out.ambiguous.get_or_insert_with(|| format!("child exit and a pending control are both ready at {} ms", m.now));
		}
		if exit_now {
			parked = false;
			if let St::Running(c) = m.st {
				m.handle_end(c);
			}
			continue;
		}
		if recv_ready {
			if parked {
				let ready = [timer_past, !m.urgent.is_empty(), !m.high.is_empty(), m.timer.is_none() && !m.normal.is_empty()]
					.iter()
					.filter(|b| **b)
					.count();
				if ready >= 2 {
					m.out.ambiguous.get_or_insert_with(|| format!("job task parked in select! is woken at {} ms with {ready} ready sources", m.now));
				}
			}
			parked = false;
			let msg = if timer_past {
				let t = m.timer.take().unwrap();
				Msg {
					ctrl: if t.restart { Ctrl::ContinueTryGracefulRestart } else { Ctrl::Stop },
					ticket: t.step,
					step: t.step.unwrap_or(usize::MAX),
				}
			} else if let Some(x) = m.urgent.pop_front() {
				x
			} else if let Some(x) = m.high.pop_front() {
				x
			} else {
				m.normal.pop_front().unwrap()
			};
			if !m.handle(msg) {
				ended = true;
			}
			continue;
		}
		if closed_none {
			m.end_task();
			ended = true;
			continue;
		}
		// idle: advance to the next event
		let mut cands: Vec<(u64, u8)> = Vec::new();
		if next_arr < n && !m.closed {
			cands.push((arrivals[next_arr], 0));
		} else if next_arr < n {
			// remaining steps are not sent (handle dropped) but time still passes
			cands.push((arrivals[next_arr], 3));
		}
		if let St::Running(c) = m.st {
			if let Some((t, _)) = m.children[c].exit {
				cands.push((t, 1));
			}
		}
		if let Some(t) = &m.timer {
			cands.push((t.deadline, 2));
		}
		let Some(next) = cands.iter().map(|c| c.0).min() else { break };
		let kinds: Vec<u8> = cands.iter().filter(|c| c.0 == next && c.1 != 3).map(|c| c.1).collect();
		if kinds.len() > 1 {
			m.out.ambiguous.get_or_insert_with(|| format!("simultaneous events at {next} ms (kinds {kinds:?}: 0 arrival, 1 child exit, 2 timer)"));
		}
		m.now = next.max(m.now);
		m.busy_until = None;
		parked = true;
	}
	m.out.final_state = Some(kind(&m.st));
	m.out
}

fn controls_of(op: &Op, step: usize) -> (u8, Vec<Msg>) {
	// priority: 0 normal, 1 high, 2 urgent
	let one = |c: Ctrl| vec![Msg { ctrl: c, ticket: Some(step), step }];
	let two = |a: Ctrl, b: Ctrl| {
		vec![
			Msg { ctrl: a, ticket: None, step },
			Msg { ctrl: b, ticket: Some(step), step },
		]
	};
	match op {
		Op::Start => (0, one(Ctrl::Start)),
		Op::Stop => (0, one(Ctrl::Stop)),
		Op::StopSig { sig: s, grace } => (0, one(Ctrl::GracefulStop { sig: sig(*s).1, grace: u64::from(*grace) })),
		Op::Restart => (0, two(Ctrl::Stop, Ctrl::Start)),
		Op::RestartSig { sig: s, grace } => (0, two(Ctrl::GracefulStop { sig: sig(*s).1, grace: u64::from(*grace) }, Ctrl::Start)),
		Op::TryRestart => (0, one(Ctrl::TryRestart)),
		Op::TryRestartSig { sig: s, grace } => (0, one(Ctrl::TryGracefulRestart { sig: sig(*s).1, grace: u64::from(*grace) })),
		Op::Signal(s) => (0, one(Ctrl::Signal(sig(*s).1))),
		Op::ToWait => (1, one(Ctrl::NextEnding)),
		Op::Delete => (0, two(Ctrl::Stop, Ctrl::Delete)),
		Op::DeleteNow => (2, two(Ctrl::Stop, Ctrl::Delete)),
		Op::Run => (0, one(Ctrl::Marker)),
		Op::RunAsync { delay } => (0, one(Ctrl::AsyncMarker(u64::from(*delay)))),
		Op::SetHook(m) => (0, one(Ctrl::SetHook(Some(*m)))),
		Op::ClearHook => (0, one(Ctrl::SetHook(None))),
		Op::SetErrHandler => (0, one(Ctrl::SetErr(true))),
		Op::UnsetErrHandler => (0, one(Ctrl::SetErr(false))),
		Op::DropHandle => (0, vec![]),
		Op::RawContinue => (0, one(Ctrl::ContinueTryGracefulRestart)),
		Op::RawNextEnding => (0, one(Ctrl::NextEnding)),
	}
}
