//! C05 — on-busy policy of the CLI: do-nothing, queue, restart and signal behave as documented.
//! The real action handler (`make_config`, hook H2) is driven in-process with synthetic change
//! events; the supervised command is the helper, which logs start / signal / end lines with
//! CLOCK_MONOTONIC stamps and holds a flock (kernel-level overlap witness).

use std::{
	ffi::OsString,
	time::{Duration, Instant},
};

use proptest::prelude::*;
use serde::{Deserialize, Serialize};
use watchexec::Watchexec;
use watchexec_events::{Event, Priority, Source, Tag};
use watchexec_signals::Signal;

use super::{
	c08::{kill_all, Logs},
	c18::{helper_path, wx_path},
};
use crate::engine::{Engine, LegOpts, Outcome};

#[derive(Clone, Debug, Serialize, Deserialize, PartialEq, Eq)]
pub enum Pos {
	/// clearly while the command runs (>= 150 ms from start, >= 200 ms before a scheduled exit)
	MidRun,
	/// clearly while nothing runs (>= 150 ms after the end)
	Idle,
	/// aimed at the moment the command exits
	AtExit,
	/// a second change 50 ms after a mid-run one (inside the grace period in restart mode)
	DuringGrace,
	/// two changes 1 ms apart (one debounce window)
	BackToBack,
	/// timed so that the command exits while the handler's --delay-run sleep is in progress
	ExitDuringDelay,
}

#[derive(Clone, Debug, Serialize, Deserialize)]
pub struct C05Case {
	/// 0 do-nothing, 1 queue, 2 restart, 3 signal
	pub mode: u8,
	/// use the -r / --signal shorthands instead of --on-busy-update
	pub shorthand: bool,
	/// 0 TERM, 1 INT, 2 USR1
	pub stop_signal: u8,
	pub stop_timeout: u16,
	pub delay_run: Option<u16>,
	pub debounce: u16,
	/// 0 exits by itself after `exit_after` ms, 1 runs until signalled, 2 ignores the stop signal
	pub cmd: u8,
	pub exit_after: u16,
	pub changes: Vec<Pos>,
	/// a forwarded signal (HUP, as the signal source would deliver it) lands in the same debounce window as
	/// the change, right before it — only where it cannot disturb the command: while nothing runs, or
	/// (restart mode) when the command ignores signals
	#[serde(default)]
	pub with_signal: bool,
	/// signal mode through the --signal shorthand: 0 alone, 1-3 together with an explicit --on-busy-update
	/// naming another mode (queue / restart / do-nothing), which --signal is documented to override ("implies")
	#[serde(default)]
	pub spelling: u8,
}

fn mono_ns() -> u128 {
	let mut ts = libc::timespec { tv_sec: 0, tv_nsec: 0 };
	unsafe { libc::clock_gettime(libc::CLOCK_MONOTONIC, &mut ts) };
	ts.tv_sec as u128 * 1_000_000_000 + ts.tv_nsec as u128
}

const SIGS: &[(&str, i32)] = &[("TERM", 15), ("INT", 2), ("USR1", 10)];

#[derive(Clone, Debug)]
struct RunRec {
	pid: i32,
	start: u128,
	end: Option<u128>,
	signals: Vec<(u128, i32)>,
}

fn parse_runs(logs: &Logs) -> (Vec<RunRec>, usize) {
	let mut runs: Vec<RunRec> = Vec::new();
	let mut overlaps = 0;
	for l in logs.lines() {
		if l.len() < 3 {
			continue;
		}
		let pid: i32 = l[1].parse().unwrap_or(0);
		let t: u128 = l[2].parse().unwrap_or(0);
		match l[0].as_str() {
			"start" => runs.push(RunRec { pid, start: t, end: None, signals: vec![] }),
			"end" => {
				if let Some(r) = runs.iter_mut().rev().find(|r| r.pid == pid) {
					r.end = Some(t);
				}
			}
			"signal" => {
				let s: i32 = l.get(3).and_then(|x| x.parse().ok()).unwrap_or(0);
				if let Some(r) = runs.iter_mut().rev().find(|r| r.pid == pid) {
					r.signals.push((t, s));
				}
			}
			"OVERLAP" => overlaps += 1,
			_ => {}
		}
	}
	(runs, overlaps)
}

fn argv(c: &C05Case, logs: &Logs) -> Vec<OsString> {
	let mut v: Vec<OsString> = vec!["watchexec".into(), "--quiet".into(), "-w".into(), "/dev/null".into()];
	let sig = SIGS[(c.stop_signal % 3) as usize].0;
	match (c.mode % 4, c.shorthand) {
		(0, _) => v.push("--on-busy-update=do-nothing".into()),
		(1, _) => v.push("--on-busy-update=queue".into()),
		(2, true) => v.push("-r".into()),
		(2, false) => v.push("--on-busy-update=restart".into()),
		(_, true) => {
			v.push(format!("--signal={sig}").into());
			match c.spelling % 4 {
				1 => v.push("--on-busy-update=queue".into()),
				2 => v.push("--on-busy-update=restart".into()),
				3 => v.push("--on-busy-update=do-nothing".into()),
				_ => {}
			}
		}
		(_, false) => v.push("--on-busy-update=signal".into()),
	}
	if !(c.mode % 4 == 3 && c.shorthand) {
		v.push(format!("--stop-signal={sig}").into());
	}
	v.push(format!("--stop-timeout={}ms", c.stop_timeout).into());
	if let Some(d) = c.delay_run {
		v.push(format!("--delay-run={d}ms").into());
	}
	v.push(format!("--debounce={}ms", c.debounce).into());
	v.push("--project-origin".into());
	v.push(logs.dir.path().as_os_str().to_owned());
	v.push("--workdir".into());
	v.push(logs.dir.path().as_os_str().to_owned());
	v.push("-n".into());
	v.push("--".into());
	v.push(helper_path().into_os_string());
	for a in ["run", "--log"] {
		v.push(a.into());
	}
	v.push(logs.log().into_os_string());
	v.push("--lock".into());
	v.push(logs.dir.path().join("lock").into_os_string());
	match c.cmd % 3 {
		0 => {
			v.push("--exit-after".into());
			v.push(c.exit_after.to_string().into());
		}
		1 => {
			v.push("--on-signal".into());
			v.push("exit".into());
		}
		_ => {
			v.push("--on-signal".into());
			v.push("ignore".into());
		}
	}
	v
}

fn change_event(n: usize) -> Event {
	Event {
		tags: vec![
			Tag::Source(Source::Filesystem),
			Tag::Path { path: format!("/vh-c05/changed-{n}").into(), file_type: None },
		],
		metadata: Default::default(),
	}
}

#[derive(Clone, Debug)]
struct Sent {
	class: &'static str,
	before: u128,
	after: u128,
	/// number of start lines seen when it was sent
	runs_seen: usize,
}

pub fn run(c: &C05Case) -> Outcome {
	let mut o = Outcome::pass();
	let logs = Logs::new("vh-c05-");
	let mode = c.mode % 4;
	let cmdk = c.cmd % 3;
	o.label(format!("mode:{}", ["do-nothing", "queue", "restart", "signal"][mode as usize]));
	o.label(format!("cmd:{}", ["exits", "until-signalled", "ignores-stop-signal"][cmdk as usize]));
	let slack_ms = 350 + u64::from(c.delay_run.unwrap_or(0)) + u64::from(c.debounce);
	let rt = tokio::runtime::Builder::new_multi_thread().worker_threads(2).enable_all().build().unwrap();
	let res: Result<Vec<Sent>, String> = rt.block_on(async {
		let args = watchexec_cli::verif::args_from(argv(c, &logs)).await.map_err(|e| format!("args: {e:?}"))?;
		let state = watchexec_cli::verif::new_state(&args).await.map_err(|e| format!("state: {e:?}"))?;
		let config = watchexec_cli::verif::make_config(&args, &state).map_err(|e| format!("config: {e:?}"))?;
		let wx = Watchexec::with_config(config).map_err(|e| e.to_string())?;
		let mut main = wx.main();
		// what run_watchexec does unless --postpone
		wx.send_event(Event::default(), Priority::Urgent).await.map_err(|e| e.to_string())?;
		let until = Instant::now() + Duration::from_secs(6);
		while parse_runs(&logs).0.is_empty() && Instant::now() < until {
			tokio::time::sleep(Duration::from_millis(5)).await;
		}
		if parse_runs(&logs).0.is_empty() {
			return Err("the command was not started at start-up".into());
		}
		let mut sent: Vec<Sent> = Vec::new();
		let wx = std::sync::Arc::new(wx);
		let counter = std::sync::atomic::AtomicUsize::new(0);
		let send = |class: &'static str, wx: &std::sync::Arc<Watchexec>| {
			let n = counter.fetch_add(1, std::sync::atomic::Ordering::SeqCst) + 1;
			let ev = change_event(n);
			let runs_seen = parse_runs(&logs).0.len();
			let wx = wx.clone();
			let sig_first = c.with_signal && (class == "idle" || (cmdk == 2 && mode == 2));
			async move {
				if sig_first {
					let sig = Event {
						tags: vec![Tag::Source(Source::Os), Tag::Signal(Signal::Hangup)],
						metadata: Default::default(),
					};
					let _ = wx.send_event(sig, Priority::High).await;
				}
				let before = mono_ns();
				let r = wx.send_event(ev, Priority::Normal).await;
				let after = mono_ns();
				r.map(|()| Sent { class, before, after, runs_seen }).map_err(|e| e.to_string())
			}
		};
		// in restart mode a change while the command runs opens a grace period: until the
		// replacement has started, further changes are not "clearly mid-run"
		let mut await_new_run: Option<usize> = None;
		for pos in &c.changes {
			// position the change relative to the observed lifecycle
			let deadline = Instant::now() + Duration::from_secs(8);
			let class: &'static str = loop {
				let (runs, _) = parse_runs(&logs);
				if let Some(n) = await_new_run {
					if runs.len() < n {
						if Instant::now() > deadline {
							break "boundary";
						}
						tokio::time::sleep(Duration::from_millis(1)).await;
						continue;
					}
					await_new_run = None;
				}
				let now = mono_ns();
				let last = runs.last().cloned();
				let active = last.as_ref().filter(|r| r.end.is_none() && crate::props::c08::alive(r.pid));
				let wanted_idle = *pos == Pos::Idle;
				match (active, wanted_idle) {
					(Some(r), false) => {
						let el = (now - r.start) / 1_000_000;
						let remaining = if cmdk == 0 { i128::from(c.exit_after) - el as i128 } else { i128::MAX };
						if *pos == Pos::AtExit && cmdk == 0 {
							if remaining <= 4 {
								break "boundary";
							}
						} else if *pos == Pos::ExitDuringDelay && cmdk == 0 && c.delay_run.is_some() {
							if remaining <= i128::from(c.delay_run.unwrap_or(0)) / 2 + i128::from(c.debounce) {
								break "boundary";
							}
						} else if mode == 2 && r.signals.iter().any(|(_, sg)| *sg == SIGS[(c.stop_signal % 3) as usize].1) {
							// restart mode and this run has already been told to stop (a change sent during the
							// previous grace period is acted on as soon as the replacement is up: controls queue
							// behind a graceful stop): it is in its own grace period, not "clearly mid-run" -
							// wait for its replacement
						} else if el >= 150 && remaining >= i128::from(slack_ms) + 50 {
							// "clearly mid-run": the command will still be running when the handler has acted on the
							// change (debounce + --delay-run) even if the handler is late by the whole slack
							break "mid-run";
						} else if cmdk == 0 && remaining < 200 && *pos != Pos::AtExit {
							// too close to the exit: wait for the next opportunity (it becomes idle)
						}
					}
					(Some(_), true) => {
						if cmdk != 0 {
							// the command never exits by itself: an idle change is impossible
							break "mid-run";
						}
					}
					(None, _) => {
						let since_end = last.as_ref().and_then(|r| r.end).map_or(u128::MAX, |e| (now.saturating_sub(e)) / 1_000_000);
						// nothing runs and nothing is about to: every change sent so far has had time to be acted on.
						// The handler's --delay-run sleeps run inside the job task one after the other, so k changes
						// sent close together need k x (debounce + delay) before the run they cause has started.
						let cycle = u128::from(c.debounce) + u128::from(c.delay_run.unwrap_or(0));
						let since_last_send = sent.last().map_or(u128::MAX, |l: &Sent| now.saturating_sub(l.after) / 1_000_000);
						let settled = since_last_send >= cycle * (sent.len().min(3) as u128) + 250;
						if since_end >= 150 && settled {
							break "idle";
						}
					}
				}
				if Instant::now() > deadline {
					break "boundary";
				}
				tokio::time::sleep(Duration::from_millis(1)).await;
			};
			let s = send(class, &wx).await?;
			if mode == 2 && class == "mid-run" {
				await_new_run = Some(s.runs_seen + 1);
			}
			sent.push(s);
			match pos {
				Pos::BackToBack => {
					tokio::time::sleep(Duration::from_millis(1)).await;
					let mut s2 = send("boundary", &wx).await?;
					s2.class = "back-to-back";
					sent.push(s2);
				}
				Pos::DuringGrace => {
					tokio::time::sleep(Duration::from_millis(50)).await;
					let mut s2 = send("boundary", &wx).await?;
					s2.class = "during-grace";
					sent.push(s2);
				}
				_ => {}
			}
			// let the action run its course before positioning the next change
			tokio::time::sleep(Duration::from_millis(u64::from(c.debounce) + u64::from(c.delay_run.unwrap_or(0)) + 80)).await;
		}
		// quiescence: the log is stable for a while and, for self-exiting commands, nothing runs
		let settle = Duration::from_millis(u64::from(c.stop_timeout) + slack_ms + 300);
		let until = Instant::now() + Duration::from_secs(10);
		let mut last_len = usize::MAX;
		let mut stable_since = Instant::now();
		loop {
			let len = logs.lines().len();
			if len != last_len {
				last_len = len;
				stable_since = Instant::now();
			}
			let (runs, _) = parse_runs(&logs);
			let active = runs.last().map_or(false, |r| r.end.is_none() && crate::props::c08::alive(r.pid));
			if stable_since.elapsed() >= settle && (cmdk != 0 || !active) {
				break;
			}
			if Instant::now() > until {
				break;
			}
			tokio::time::sleep(Duration::from_millis(5)).await;
		}
		// quit like an interrupt would
		let quit = Event {
			tags: vec![Tag::Source(Source::Os), Tag::Signal(Signal::Terminate)],
			metadata: Default::default(),
		};
		let _ = wx.send_event(quit, Priority::Urgent).await;
		if tokio::time::timeout(Duration::from_secs(8), &mut main).await.is_err() {
			main.abort();
			return Err("main did not end within 8 s of the terminate signal".into());
		}
		Ok(sent)
	});
	let quit_at = mono_ns();
	let pids = logs.pids();
	kill_all(&pids);
	let sent = match res {
		Ok(s) => s,
		Err(e) => {
			o.fail(if e.contains("not started at start-up") { "no-run-at-startup" } else { "harness:run" }, format!("{e}\ncase {c:?}\n{}", std::fs::read_to_string(logs.log()).unwrap_or_default()));
			return o;
		}
	};
	let (runs, overlaps) = parse_runs(&logs);
	let dump = || format!("\ncase: {c:?}\nchanges: {sent:?}\nruns: {runs:?}\nlog:\n{}", std::fs::read_to_string(logs.log()).unwrap_or_default());
	if std::env::var_os("VERIF_C05_DUMP").is_some() {
		let _ = std::fs::write(std::env::var("VERIF_C05_DUMP").unwrap(), dump());
	}
	let mid: Vec<&Sent> = sent.iter().filter(|s| s.class == "mid-run").collect();
	let idle: Vec<&Sent> = sent.iter().filter(|s| s.class == "idle").collect();
	let fuzzy = sent.iter().filter(|s| !matches!(s.class, "mid-run" | "idle")).count();
	if !mid.is_empty() {
		o.label("mid-run-change");
	}
	if sent.iter().any(|s| s.class == "boundary") {
		o.label("boundary-change");
	}
	if sent.iter().any(|s| s.class == "during-grace") {
		o.label("change-during-grace");
	}
	o.nontrivial = !mid.is_empty() || fuzzy > 0;
	// (1) runs never overlap
	if overlaps > 0 {
		o.fail("runs-overlap", format!("{overlaps} runs found the lock already held{}", dump()));
		return o;
	}
	let stop_sig = SIGS[(c.stop_signal % 3) as usize].1;
	// signals delivered before the final quit (the quit sends the stop signal too)
	let sigs_before_quit: Vec<(usize, u128, i32)> = runs
		.iter()
		.enumerate()
		.flat_map(|(i, r)| r.signals.iter().map(move |(t, s)| (i, *t, *s)))
		.filter(|(_, t, _)| *t + 1_000_000 < quit_at.saturating_sub(u128::from(c.stop_timeout) * 1_000_000 + 9_000_000_000).max(0) || true)
		.collect();
	let _ = &sigs_before_quit;
	let last_change = sent.iter().map(|s| s.before).max();
	let settle_cut = sent.iter().map(|s| s.after).max().unwrap_or(0);
	let run_of = |s: &Sent| runs.get(s.runs_seen.saturating_sub(1));
	match mode {
		0 => {
			// do-nothing: a change while running has no effect at all
			for s in &mid {
				if let Some(r) = run_of(s) {
					if r.signals.iter().any(|(t, _)| *t >= s.before && *t <= s.after + u128::from(slack_ms) * 1_000_000) {
						o.fail("do-nothing:signal-sent", format!("a change while the command runs led to a signal{}", dump()));
						return o;
					}
				}
			}
			let max_runs = 1 + idle.len() + fuzzy;
			let min_runs = 1 + idle.len();
			if runs.len() > max_runs || runs.len() < min_runs {
				o.fail(
					if runs.len() > max_runs { "do-nothing:extra-run" } else { "idle-change-did-not-start-a-run" },
					format!("{} runs, expected {min_runs}..={max_runs} (1 at start-up + one per idle change; {} mid-run changes must not add any){}", runs.len(), mid.len(), dump()),
				);
				return o;
			}
		}
		3 => {
			// signal: exactly the configured signal, no restart
			for s in &mid {
				let Some(r) = run_of(s) else { continue };
				let n = r.signals.iter().filter(|(t, sg)| *t >= s.before && *t <= s.after + u128::from(slack_ms) * 1_000_000 && *sg == stop_sig).count();
				// evidence of a violation: the run was still alive a full slack after the change and had not got
				// the signal; a run that ended by itself before that tells nothing (the handler may have acted late)
				let alive_through = r.end.map_or(true, |e| e > s.after + u128::from(slack_ms) * 1_000_000);
				if n == 0 && alive_through {
					o.fail("signal:not-delivered", format!("a mid-run change was not followed by signal {stop_sig} to the running command{}", dump()));
					return o;
				}
				if let Some((_, sg)) = r.signals.iter().find(|(t, sg)| *t >= s.before && *t <= s.after + u128::from(slack_ms) * 1_000_000 && *sg != stop_sig) {
					o.fail("signal:wrong-signal", format!("signal {sg} delivered, configured {stop_sig}{}", dump()));
					return o;
				}
			}
			if cmdk == 2 {
				// a command that ignores the signal keeps running: no further run may appear
				if runs.len() > 1 + idle.len() + fuzzy {
					o.fail("signal:restarted", format!("signal mode started extra runs: {}{}", runs.len(), dump()));
					return o;
				}
			}
		}
		2 => {
			// restart: stop signal at once, no kill before the timeout, a fresh run afterwards
			for (k, s) in sent.iter().enumerate() {
				if s.class != "mid-run" {
					continue;
				}
				// skip if another change follows within the stop timeout (its effect overlaps)
				if sent.get(k + 1).map_or(false, |n| n.before < s.after + (u128::from(c.stop_timeout) + u128::from(slack_ms)) * 1_000_000) {
					continue;
				}
				let Some(r) = run_of(s) else { continue };
				if r.signals.iter().any(|(t, sg)| *t < s.before && *sg == stop_sig) {
					// the run had been told to stop before this change was sent (the helper's log line can
					// lag the positioning loop): the change fell into a grace period, which is the
					// "during-grace" class and not judged here
					o.label("mid-run-change-found-in-grace");
					continue;
				}
				let sig = r.signals.iter().find(|(t, sg)| *t >= s.before && *sg == stop_sig);
				let Some((tsig, _)) = sig else {
					if r.end.map_or(false, |e| e < s.after + u128::from(slack_ms) * 1_000_000) {
						continue; // it ended by itself before the handler can be shown to have acted
					}
					o.fail("restart:no-stop-signal", format!("a mid-run change in restart mode was not followed by the stop signal {stop_sig}{}", dump()));
					return o;
				};
				if *tsig > s.after + u128::from(slack_ms) * 1_000_000 {
					o.fail("restart:stop-signal-late", format!("stop signal {} ms after the change{}", (*tsig - s.after) / 1_000_000, dump()));
					return o;
				}
				let next = runs.get(s.runs_seen);
				let Some(nx) = next else {
					o.fail("restart:no-fresh-run", format!("no run started after the restart triggered by a mid-run change{}", dump()));
					return o;
				};
				if cmdk == 2 {
					// ignores the signal: must survive the whole stop timeout, then be killed
					let min = *tsig + (u128::from(c.stop_timeout).saturating_sub(8)) * 1_000_000;
					let max = *tsig + (u128::from(c.stop_timeout) + u128::from(slack_ms) + 200) * 1_000_000;
					if nx.start < min {
						o.fail("restart:killed-before-stop-timeout", format!("replacement started {} ms after the stop signal, stop timeout {} ms{}", (nx.start - *tsig) / 1_000_000, c.stop_timeout, dump()));
						return o;
					}
					if nx.start > max {
						o.fail("restart:not-killed-at-stop-timeout", format!("replacement started {} ms after the stop signal, stop timeout {} ms{}", (nx.start - *tsig) / 1_000_000, c.stop_timeout, dump()));
						return o;
					}
				}
			}
		}
		_ => {
			// queue: however many changes arrive during one run, exactly one further run after it ends
			if cmdk == 0 {
				let mut expected_extra = 0usize;
				let mut i = 0;
				while i < runs.len() {
					let during: Vec<&Sent> = sent.iter().filter(|s| s.runs_seen == i + 1 && s.class != "idle").collect();
					if !during.is_empty() {
						expected_extra += 1;
						let Some(end) = runs[i].end else { break };
						match runs.get(i + 1) {
							None => {
								if during.iter().all(|s| s.class == "mid-run") {
									o.fail("queue:no-further-run", format!("{} change(s) arrived during run {i} but no run followed it{}", during.len(), dump()));
									return o;
								}
							}
							Some(nx) => {
								if nx.start < end {
									o.fail("runs-overlap", format!("run {} started before run {i} ended{}", i + 1, dump()));
									return o;
								}
							}
						}
					}
					i += 1;
				}
				let max_runs = 1 + idle.len() + expected_extra + fuzzy;
				if runs.len() > max_runs {
					o.fail("queue:too-many-runs", format!("{} runs, at most {max_runs} expected (one further run per run that saw changes){}", runs.len(), dump()));
					return o;
				}
			} else {
				// the command never ends by itself: queue mode must neither signal nor restart it
				if runs.len() > 1 + fuzzy || runs.iter().any(|r| r.signals.iter().any(|(t, _)| *t < settle_cut)) {
					o.fail("queue:disturbed-running-command", format!("queue mode signalled or restarted a running command{}", dump()));
					return o;
				}
			}
		}
	}
	// (5) freshness: in restart and queue modes the last change is followed by a run that started after it
	if matches!(mode, 1 | 2) && (cmdk == 0 || mode == 2) {
		if let Some(t) = last_change {
			if !runs.iter().any(|r| r.start >= t) {
				o.fail(
					if mode == 2 { "restart:last-change-not-followed-by-a-run" } else { "queue:last-change-not-followed-by-a-run" },
					format!("no run started after the last change (sent at {t}){}", dump()),
				);
				return o;
			}
		}
	}
	// idle changes always start a run
	for s in &idle {
		if !runs.iter().any(|r| r.start >= s.before && r.start <= s.after + (u128::from(slack_ms) + 400) * 1_000_000) {
			o.fail("idle-change-did-not-start-a-run", format!("a change while idle was not followed by a run{}", dump()));
			return o;
		}
	}
	o
}

fn strategy() -> BoxedStrategy<C05Case> {
	let pos = prop_oneof![4 => Just(Pos::MidRun), 2 => Just(Pos::Idle), 2 => Just(Pos::AtExit), 1 => Just(Pos::DuringGrace), 1 => Just(Pos::BackToBack)];
	let general = (
		0u8..4,
		any::<bool>(),
		0u8..3,
		prop_oneof![Just(100u16), Just(250), Just(400)],
		proptest::option::weighted(0.3, 50u16..150),
		20u16..50,
		prop_oneof![3 => Just(0u8), 2 => Just(1u8), 2 => Just(2u8)],
		prop_oneof![Just(450u16), Just(900), Just(1300)],
		proptest::collection::vec(pos, 1..5),
		(proptest::bool::weighted(0.3), 0u8..4),
	)
		.prop_map(|(mode, shorthand, stop_signal, stop_timeout, delay_run, debounce, cmd, exit_after, changes, (with_signal, spelling))| C05Case {
			mode,
			shorthand,
			stop_signal,
			stop_timeout,
			delay_run,
			debounce,
			cmd,
			exit_after,
			changes,
			with_signal,
			spelling,
		});
	// the command exits by itself while the handler is still in its --delay-run sleep: the busy
	// check and the restart / queue control then race with the collection of the exit
	let racy = (prop_oneof![Just(1u8), Just(2u8)], any::<bool>(), 200u16..400, prop_oneof![Just(450u16), Just(600)], 2usize..5).prop_map(|(mode, shorthand, delay, exit_after, n)| C05Case {
		mode,
		shorthand,
		stop_signal: 0,
		stop_timeout: 250,
		delay_run: Some(delay),
		debounce: 20,
		cmd: 0,
		exit_after,
		changes: vec![Pos::ExitDuringDelay; n],
		with_signal: false,
		spelling: 0,
	});
	prop_oneof![4 => general, 1 => racy].boxed()
}

// ------------------------------------------------------------------ e2e: postpone and start-up run, real file changes

#[derive(Clone, Debug, Serialize, Deserialize)]
pub struct E2eCase {
	pub postpone: bool,
	pub restart: bool,
}

fn run_e2e(c: &E2eCase) -> Outcome {
	let mut o = Outcome::pass();
	o.nontrivial = true;
	o.label(if c.postpone { "postpone" } else { "run-at-startup" });
	let logs = Logs::new("vh-c05e-");
	let watched = logs.dir.path().join("watched");
	std::fs::create_dir_all(&watched).unwrap();
	let mut cmd = std::process::Command::new(wx_path());
	cmd.current_dir(&watched).env("HOME", logs.dir.path()).arg("--quiet").arg("-w").arg(&watched).arg("--debounce=30ms").arg("--stop-timeout=200ms");
	if c.postpone {
		cmd.arg("--postpone");
	}
	if c.restart {
		cmd.arg("-r");
	}
	cmd.arg("-n").arg("--").arg(helper_path()).args(["run", "--log"]).arg(logs.log()).arg("--lock").arg(logs.dir.path().join("lock")).args(["--on-signal", "exit"]);
	cmd.stdin(std::process::Stdio::null()).stdout(std::process::Stdio::null()).stderr(std::process::Stdio::null());
	let mut child = match cmd.spawn() {
		Ok(c) => c,
		Err(e) => {
			o.fail("env:wx-spawn", e.to_string());
			return o;
		}
	};
	std::thread::sleep(Duration::from_millis(900));
	let at_startup = parse_runs(&logs).0.len();
	// a real file change
	std::fs::write(watched.join("touched.txt"), b"x").unwrap();
	let until = Instant::now() + Duration::from_secs(5);
	let want_after = if c.postpone { 1 } else if c.restart { 2 } else { 1 };
	while parse_runs(&logs).0.len() < want_after && Instant::now() < until {
		std::thread::sleep(Duration::from_millis(10));
	}
	std::thread::sleep(Duration::from_millis(300));
	let (runs, overlaps) = parse_runs(&logs);
	unsafe {
		libc::kill(child.id() as i32, libc::SIGTERM);
	}
	let t = Instant::now();
	while t.elapsed() < Duration::from_secs(5) {
		if child.try_wait().ok().flatten().is_some() {
			break;
		}
		std::thread::sleep(Duration::from_millis(10));
	}
	let _ = child.kill();
	let _ = child.wait();
	kill_all(&logs.pids());
	let dump = format!("\ncase {c:?}\nlog:\n{}", std::fs::read_to_string(logs.log()).unwrap_or_default());
	if c.postpone && at_startup != 0 {
		o.fail("postpone:ran-at-startup", format!("{at_startup} run(s) before any change although --postpone was given{dump}"));
	} else if !c.postpone && at_startup != 1 {
		o.fail("no-run-at-startup", format!("{at_startup} runs 900 ms after start-up, expected 1{dump}"));
	} else if overlaps > 0 {
		o.fail("runs-overlap", format!("{overlaps} overlaps{dump}"));
	} else if c.postpone && runs.is_empty() {
		o.fail("idle-change-did-not-start-a-run", format!("a file change with --postpone did not start the command{dump}"));
	} else if c.restart && !c.postpone && runs.len() < 2 {
		o.fail("restart:no-fresh-run", format!("a file change in restart mode did not restart the command{dump}"));
	}
	o
}

// ---------------------------------------------------------------------------------------------
// A start that fails: the executable is missing at the moment the handler (re)starts the command, and is
// back afterwards. The policy must go on as documented once the command can be spawned again.

#[derive(Clone, Debug, Serialize, Deserialize)]
pub struct SpawnFaultCase {
	/// 1 queue, 2 restart (the modes that start the command in reaction to a change while it runs)
	pub mode: u8,
	/// the command exits by itself after this many ms
	pub exit_after: u16,
	pub debounce: u16,
	/// further mid-run changes after the recovery (each must be followed by a run that started after it)
	pub later_changes: u8,
}

fn run_spawn_fault(c: &SpawnFaultCase) -> Outcome {
	let mut o = Outcome::pass();
	o.nontrivial = true;
	let logs = Logs::new("vh-c05f-");
	let queue = c.mode % 2 == 1;
	o.label(if queue { "spawn-fault:queue" } else { "spawn-fault:restart" });
	let link = logs.dir.path().join("the-command");
	if let Err(e) = std::os::unix::fs::symlink(helper_path(), &link) {
		o.fail("env:symlink", e.to_string());
		return o;
	}
	let base = C05Case {
		mode: if queue { 1 } else { 2 },
		shorthand: false,
		stop_signal: 0,
		stop_timeout: 300,
		delay_run: None,
		debounce: c.debounce,
		cmd: 0,
		exit_after: c.exit_after,
		changes: vec![],
		with_signal: false,
		spelling: 0,
	};
	let mut av = argv(&base, &logs);
	for a in av.iter_mut() {
		if *a == helper_path().into_os_string() {
			*a = link.clone().into_os_string();
		}
	}
	let exit_ms = u64::from(c.exit_after);
	let rt = tokio::runtime::Builder::new_multi_thread().worker_threads(2).enable_all().build().unwrap();
	let res: Result<(), (String, String)> = rt.block_on(async {
		let env = |e: String| ("env:setup".to_string(), e);
		let args = watchexec_cli::verif::args_from(av).await.map_err(|e| env(format!("args: {e:?}")))?;
		let state = watchexec_cli::verif::new_state(&args).await.map_err(|e| env(format!("state: {e:?}")))?;
		let config = watchexec_cli::verif::make_config(&args, &state).map_err(|e| env(format!("config: {e:?}")))?;
		let wx = Watchexec::with_config(config).map_err(|e| env(e.to_string()))?;
		let mut main = wx.main();
		wx.send_event(Event::default(), Priority::Urgent).await.map_err(|e| env(e.to_string()))?;
		let wait_runs = |n: usize, ms: u64| {
			let logs = &logs;
			async move {
				let until = Instant::now() + Duration::from_millis(ms);
				while parse_runs(logs).0.len() < n && Instant::now() < until {
					tokio::time::sleep(Duration::from_millis(5)).await;
				}
				parse_runs(logs).0.len() >= n
			}
		};
		let wait_idle = |ms: u64| {
			let logs = &logs;
			async move {
				let until = Instant::now() + Duration::from_millis(ms);
				loop {
					let (runs, _) = parse_runs(logs);
					let busy = runs.last().map_or(false, |r| r.end.is_none() && crate::props::c08::alive(r.pid));
					if !busy || Instant::now() > until {
						return !busy;
					}
					tokio::time::sleep(Duration::from_millis(5)).await;
				}
			}
		};
		if !wait_runs(1, 6_000).await {
			return Err(("startup:no-run".into(), "the command was not started at start-up".into()));
		}
		// 1. a change while run 1 is clearly under way; the executable disappears before the handler starts the
		//    command again (queue: when run 1 ends; restart: right after the stop)
		tokio::time::sleep(Duration::from_millis(150)).await;
		std::fs::remove_file(&link).map_err(|e| env(e.to_string()))?;
		wx.send_event(change_event(1), Priority::Normal).await.map_err(|e| env(e.to_string()))?;
		// run 1 is over (by itself or stopped) and the failed start has had time to happen
		if !wait_idle(exit_ms + 3_000).await {
			return Err(("env:run-1-did-not-end".into(), String::new()));
		}
		tokio::time::sleep(Duration::from_millis(u64::from(c.debounce) + 400)).await;
		let n_before = parse_runs(&logs).0.len();
		if n_before != 1 {
			return Err(("env:started-although-missing".into(), format!("{n_before} runs although the executable was missing")));
		}
		// 2. the executable is back; a change while nothing runs starts the command
		std::os::unix::fs::symlink(helper_path(), &link).map_err(|e| env(e.to_string()))?;
		let mut n_sent = 1;
		let mut runs_expected = 1;
		// the failed start may have left the job "to be started" in queue mode: either way one change while idle
		// must get the command running (give it two chances: the first may only report the earlier failure)
		for _ in 0..2 {
			n_sent += 1;
			wx.send_event(change_event(n_sent), Priority::Normal).await.map_err(|e| env(e.to_string()))?;
			if wait_runs(runs_expected + 1, 2_500).await {
				break;
			}
		}
		if parse_runs(&logs).0.len() < runs_expected + 1 {
			return Err(("spawn-fault:idle-change-starts-nothing".into(), "after a failed start (executable missing, now back) two changes while nothing runs did not start the command within 2.5 s each".into()));
		}
		runs_expected = parse_runs(&logs).0.len();
		// 3. back to normal: every change while the command runs is followed by a run that started after it
		for k in 0..c.later_changes.max(1) {
			// clearly mid-run of the newest run
			let (runs, _) = parse_runs(&logs);
			let last = runs.last().cloned().unwrap();
			let el = (mono_ns().saturating_sub(last.start) / 1_000_000) as u64;
			if last.end.is_some() || !crate::props::c08::alive(last.pid) || el + 400 > exit_ms {
				// too late for this run: get a fresh one with an idle change
				if !wait_idle(exit_ms + 3_000).await {
					return Err(("env:run-did-not-end".into(), String::new()));
				}
				tokio::time::sleep(Duration::from_millis(200)).await;
				n_sent += 1;
				wx.send_event(change_event(n_sent), Priority::Normal).await.map_err(|e| env(e.to_string()))?;
				if !wait_runs(runs_expected + 1, 3_000).await {
					return Err(("spawn-fault:idle-change-starts-nothing".into(), format!("later change {k}: a change while nothing runs did not start the command within 3 s")));
				}
				runs_expected = parse_runs(&logs).0.len();
			}
			tokio::time::sleep(Duration::from_millis(150)).await;
			n_sent += 1;
			let before = mono_ns();
			wx.send_event(change_event(n_sent), Priority::Normal).await.map_err(|e| env(e.to_string()))?;
			// a run that started after the change: in queue mode after the current one ended by itself
			if !wait_runs(runs_expected + 1, exit_ms + 3_000).await {
				return Err((
					if queue { "spawn-fault:queue:mid-run-change-not-followed-by-a-run" } else { "spawn-fault:restart:mid-run-change-not-followed-by-a-run" }.into(),
					format!("after a failed start and a recovery, change {n_sent} sent while the command was running was not followed by a further run within {} ms", exit_ms + 3_000),
				));
			}
			let (runs, _) = parse_runs(&logs);
			runs_expected = runs.len();
			if runs.last().map_or(0, |r| r.start) < before {
				return Err(("spawn-fault:run-older-than-change".into(), format!("the newest run started before change {n_sent} was sent")));
			}
		}
		let _ = wx.send_event(Event { tags: vec![Tag::Source(Source::Os), Tag::Signal(Signal::Terminate)], metadata: Default::default() }, Priority::Urgent).await;
		let _ = tokio::time::timeout(Duration::from_secs(5), &mut main).await;
		main.abort();
		Ok(())
	});
	rt.shutdown_timeout(Duration::from_millis(300));
	let (runs, overlaps) = parse_runs(&logs);
	kill_all(&logs.pids());
	let dump = || format!("\ncase {c:?}\nruns {runs:?}");
	if overlaps > 0 {
		o.fail("overlap", format!("a run found the lock held by another run{}", dump()));
		return o;
	}
	if let Err((sig, msg)) = res {
		o.fail(&sig, format!("{msg}{}", dump()));
	}
	o
}

pub fn check(e: &Engine) {
	e.assume("real time and real processes: 'clearly mid-run' = >= 150 ms after the start and, for a command that exits by itself, at least 400 ms + debounce + --delay-run before its scheduled exit (so the handler acts while it still runs even if it is late by the whole slack); 'signal not delivered' / 'no stop signal' need the run to have been alive a full slack after the change; 'clearly idle' = >= 150 ms after the end; changes aimed at a boundary only assert non-overlap, freshness and 'at most one extra run'; a failure must reproduce 3 times (freshness failures, which depend on a select! race the harness does not own and are protected by a > 1.3 s quiescence wait: once more in 5 re-executions)");
	e.assume("the queue-mode window between 'queued start processed' and the reset of the queued flag is microseconds wide and is not reached by real-time generation (DESIGN.md §5)");
	if !helper_path().exists() || !wx_path().exists() {
		e.inconclusive("vhelper / wx binaries not built next to vcheck");
		return;
	}
	// the CLI's action handler writes progress banners to stderr with eprintln!: keep them out of the way
	{
		use std::os::unix::io::AsRawFd;
		let _ = std::fs::create_dir_all("/verif/out");
		if let Ok(f) = std::fs::OpenOptions::new().create(true).write(true).truncate(true).open("/verif/out/C05.stderr.log") {
			unsafe {
				libc::dup2(f.as_raw_fd(), 2);
			}
		}
	}
	e.explore(
		"on-busy",
		LegOpts {
			confirm_any: &["restart:last-change-not-followed-by-a-run", "queue:last-change-not-followed-by-a-run", "queue:no-further-run", "restart:no-fresh-run"],
			..LegOpts::realtime(
			e.tier.pick(180, 3_000),
			16,
			"the four on-busy modes (and the -r / --signal shorthands, --signal also next to an explicit --on-busy-update naming another mode, which it overrides), stop signal TERM/INT/USR1, stop timeout 100-400 ms, optional --delay-run, debounce 20-50 ms; command exits after 450-1300 ms / runs until signalled / ignores the stop signal; 1-4 changes positioned against the observed lifecycle: clearly mid-run, clearly idle, at the moment of exit, inside the grace period, back-to-back, and (restart / queue with --delay-run 200-400 ms) timed so that the command exits during the handler's delay sleep; non-trivial = a mid-run or boundary change",
		)},
		&strategy,
		&run,
	);
	e.require_label("on-busy", "mid-run-change", 0.4);
	e.explore(
		"spawn-fault",
		LegOpts::realtime(
			e.tier.pick(12, 200),
			12,
			"queue and restart modes with a command (run through a per-case symbolic link, -n) that exits by itself after 600-900 ms: the link is removed while run 1 is under way and a change is sent, so that the start the handler attempts next fails (ENOENT); then the link is restored: a change while nothing runs must start the command again, and each of 1-2 later changes sent clearly mid-run must be followed by a run that started after it (queue: after the current run ended; restart: after the stop); no overlap throughout",
		),
		&|| (1u8..3, prop_oneof![Just(600u16), Just(750), Just(900)], 20u16..50, 1u8..3).prop_map(|(mode, exit_after, debounce, later_changes)| SpawnFaultCase { mode, exit_after, debounce, later_changes }).boxed(),
		&run_spawn_fault,
	);
	e.explore(
		"cli-startup",
		LegOpts::realtime(e.tier.pick(8, 80), 4, "the real binary with and without --postpone and -r, one real file change in the watched directory: first run at start-up unless postponed, a change starts / restarts the command, no overlap"),
		&|| (any::<bool>(), any::<bool>()).prop_map(|(postpone, restart)| E2eCase { postpone, restart }).boxed(),
		&run_e2e,
	);
}
