//! C10 — controls run in send order within a priority; urgent before high before normal.
//!
//! Marker controls (`run`) record a global sequence number when they execute. Cross-priority
//! order is asserted only where the property binds: when all controls are demonstrably pending at
//! the moment the job task looks at its queues afresh (sent while the task is busy inside a gate
//! control). A task already parked in its select! picks its first control at random, so for
//! bursts sent to a parked task only per-priority FIFO and exactly-once are asserted.

use std::sync::{Arc, Mutex};

use proptest::prelude::*;
use serde::{Deserialize, Serialize};
use watchexec_supervisor::{
	command::{Command, Program, SpawnOptions},
	job::start_job,
};

use crate::{
	engine::{Engine, LegOpts, Outcome},
	jobdrive::{run_case, JobCase, Op, Step},
	jobgen,
	sim::{ChildSpec, Ev, React, SimSpec},
};

#[derive(Clone, Debug, Serialize, Deserialize, PartialEq, Eq)]
pub enum Item {
	/// normal-priority marker
	Run,
	/// high-priority wait-for-end
	ToWait,
	/// urgent delete
	DeleteNow,
	/// normal: start (only in the high-over-normal scenario)
	Start,
	/// normal: stop
	Stop,
	/// normal-priority wait-for-end: `control(Control::NextEnding)` (what `to_wait()` sends at high priority)
	RawWait,
}

#[derive(Clone, Debug, Serialize, Deserialize)]
pub struct C10Case {
	/// 0 gated (task busy while the burst is sent), 1 parked (idle task), 2 grace timer armed
	pub mode: u8,
	/// job state before the burst: false = previous run finished, true = a process is running (never exits)
	pub running: bool,
	pub items: Vec<Item>,
	/// all items in one instant (true) or 1 ms apart (false)
	pub same_instant: bool,
	pub sched: u8,
	/// gated mode with a running process: the process exits by itself in the middle of the gate, so that its
	/// exit is waiting to be collected at the very moment the task looks at its queues again
	#[serde(default)]
	pub exit_in_gate: bool,
}

const SETTLE: u32 = 20_000;
const GATE: u32 = 500;
const GRACE: u32 = 300;

struct Built {
	case: JobCase,
	t0: u64,
	/// instant at which the queued burst is released (gate end / grace expiry / t0)
	release: u64,
	item_steps: Vec<usize>,
}

fn build(c: &C10Case) -> Built {
	let mut steps = vec![Step { gap: 1, op: Op::Start, waiters: 1 }];
	let mut t: u64 = 1;
	if !c.running {
		steps.push(Step { gap: SETTLE, op: Op::Stop, waiters: 1 });
		t += u64::from(SETTLE);
	}
	let release;
	match c.mode {
		0 => {
			steps.push(Step { gap: SETTLE, op: Op::RunAsync { delay: GATE }, waiters: 1 });
			t += u64::from(SETTLE);
			release = t + u64::from(GATE);
		}
		2 => {
			steps.push(Step { gap: SETTLE, op: Op::StopSig { sig: 0, grace: GRACE }, waiters: 1 });
			t += u64::from(SETTLE);
			release = t + u64::from(GRACE);
		}
		_ => {
			t += u64::from(SETTLE);
			release = t;
		}
	}
	let t0 = t;
	let mut item_steps = Vec::new();
	for (k, it) in c.items.iter().enumerate() {
		let gap = if c.mode == 1 {
			if k == 0 { SETTLE } else { 0 }
		} else if k == 0 {
			1
		} else if c.same_instant {
			0
		} else {
			1
		};
		let op = match it {
			Item::Run => Op::Run,
			Item::ToWait => Op::ToWait,
			Item::DeleteNow => Op::DeleteNow,
			Item::Start => Op::Start,
			Item::Stop => Op::Stop,
			Item::RawWait => Op::RawNextEnding,
		};
		steps.push(Step { gap, op, waiters: 1 });
		item_steps.push(steps.len() - 1);
	}
	steps.push(Step { gap: SETTLE, op: Op::Run, waiters: 1 });
	Built {
		case: JobCase {
			sim: SimSpec {
				children: vec![ChildSpec { self_exit: if c.exit_in_gate && c.mode == 0 && c.running { Some(SETTLE + GATE / 2) } else { None }, code: 0, react: React::Ignore }],
				..Default::default()
			},
			steps,
			track: false,
			sched: c.sched,
			err_handler: true,
		},
		t0,
		release,
		item_steps,
	}
}

pub fn run(c: &C10Case) -> Outcome {
	let mut o = Outcome::pass();
	let b = build(c);
	let trace = run_case(&b.case);
	let mode = ["gated", "parked", "timer"][c.mode.min(2) as usize];
	o.label(format!("mode:{mode}"));
	let prios: std::collections::BTreeSet<u8> = c
		.items
		.iter()
		.map(|i| match i {
			Item::ToWait => 1u8,
			Item::DeleteNow => 2,
			_ => 0,
		})
		.collect();
	if prios.len() >= 2 {
		o.label("2+priorities");
	}
	o.nontrivial = prios.len() >= 2 && c.items.len() >= 3;
	let dump = || format!("\ncase: {c:?}\nt0={} release={}\nsteps: {:?}\nmarkers: {:?}\ntask_end: {:?}\nlog: {}", b.t0, b.release, trace.steps, trace.markers, trace.task_end, jobgen::fmt_log(&trace));

	let del_pos = c.items.iter().position(|i| *i == Item::DeleteNow);
	// markers of the burst, in execution order
	let mut ran: Vec<(u64, usize, u64)> = trace
		.markers
		.iter()
		.filter(|m| !m.behind)
		.filter_map(|m| b.item_steps.iter().position(|s| *s == m.step).map(|k| (m.seq, k, m.t_ms)))
		.collect();
	ran.sort();
	// exactly-once
	for (k, it) in c.items.iter().enumerate() {
		if *it != Item::Run {
			continue;
		}
		let n = ran.iter().filter(|r| r.1 == k).count();
		if n > 1 {
			o.fail("marker-ran-twice", format!("item {k} ran {n} times{}", dump()));
			return o;
		}
		if n == 0 && del_pos.is_none() {
			o.fail("marker-never-ran", format!("item {k} never ran although the job was not deleted{}", dump()));
			return o;
		}
	}
	// per-priority FIFO: normal markers execute in send order
	let order: Vec<usize> = ran.iter().map(|r| r.1).collect();
	if order.windows(2).any(|w| w[0] > w[1]) {
		o.fail("normal-fifo-violated", format!("normal-priority markers executed in order {order:?} (indices are send order){}", dump()));
		return o;
	}
	// awaiting the last normal ticket implies all earlier normal markers ran: the ticket of a marker
	// resolves exactly when it ran, so check ticket instants are non-decreasing in send order
	let tick: Vec<Option<u64>> = c
		.items
		.iter()
		.enumerate()
		.filter(|(_, i)| **i == Item::Run)
		.map(|(k, _)| trace.steps[b.item_steps[k]].waiters[0])
		.collect();
	if del_pos.is_none() && tick.windows(2).any(|w| w[0] > w[1] || w[0].is_none()) {
		o.fail("normal-ticket-order", format!("tickets of normal markers resolve at {tick:?}, not in send order{}", dump()));
		return o;
	}
	// nothing of normal priority runs before the release instant (gate busy / timer armed)
	if c.mode != 1 {
		if let Some(r) = ran.iter().find(|r| r.2 < b.release) {
			o.fail(
				if c.mode == 2 { "normal-ran-while-timer-armed" } else { "normal-ran-before-gate-end" },
				format!("item {} executed at {} ms, before the release instant {} ms{}", r.1, r.2, b.release, dump()),
			);
			return o;
		}
	}

	// a wait-for-end sent through control() is a normal-priority control: it sees the job as the normal
	// controls sent before it left it (gated mode, nothing deleted, the process never exits by itself)
	if c.mode == 0 && del_pos.is_none() && !c.exit_in_gate {
		let mut running = c.running;
		for (k, it) in c.items.iter().enumerate() {
			match it {
				Item::Stop => running = false,
				Item::Start => running = true,
				Item::RawWait => {
					let later_stop = c.items[k + 1..].iter().any(|i| *i == Item::Stop);
					let expected = if !running || later_stop { Some(b.release) } else { None };
					let w = trace.steps[b.item_steps[k]].waiters[0];
					o.label("raw-wait-for-end");
					if w != expected {
						o.fail(
							"raw-wait-not-in-send-order",
							format!("control(NextEnding) (item {k}) resolved at {w:?}, expected {expected:?}: it is a normal-priority control and must see the job state left by the normal controls sent before it{}", dump()),
						);
						return o;
					}
				}
				_ => {}
			}
		}
	}
	match c.mode {
		0 => {
			// all controls were pending when the task looked at its queues afresh
			if del_pos.is_some() {
				// urgent over normal and over high: nothing else of the burst runs, job ends at release
				if !ran.is_empty() {
					o.fail("urgent-did-not-overtake-normal", format!("normal markers {order:?} ran although a delete_now was pending with them{}", dump()));
					return o;
				}
				if trace.task_end.map(|e| e.0) != Some(b.release) {
					o.fail("urgent-not-immediate", format!("job task ended at {:?}, expected the release instant {}{}", trace.task_end, b.release, dump()));
					return o;
				}
				// a pending Start must not have spawned anything
				if trace.log.iter().any(|r| r.ms() >= b.t0 && matches!(r.ev, Ev::Spawned { .. })) {
					o.fail("urgent-did-not-overtake-normal", format!("a queued start spawned although delete_now was pending{}", dump()));
					return o;
				}
				for (k, _) in c.items.iter().enumerate() {
					let w = trace.steps[b.item_steps[k]].waiters[0];
					if w != Some(b.release) {
						o.fail("ticket-not-resolved-at-job-end", format!("item {k} ticket resolved at {w:?}, job ended at {}{}", b.release, dump()));
						return o;
					}
				}
			} else {
				// high over normal: to_wait sees the state from before any queued normal control
				for (k, it) in c.items.iter().enumerate() {
					if *it != Item::ToWait {
						continue;
					}
					let w = trace.steps[b.item_steps[k]].waiters[0];
					let has_stop = c.items.iter().any(|i| *i == Item::Stop);
					let expected = if !c.running {
						// previous run finished: resolves at once, whatever normal controls are queued
						Some(b.release)
					} else if c.exit_in_gate {
						// the process ended during the gate: whether its exit or the to_wait is taken first, the wait is over at release
						Some(b.release)
					} else if has_stop {
						// waits for the running process, which the queued stop then kills in the same instant
						Some(b.release)
					} else {
						None
					};
					if w != expected {
						o.fail(
							"high-did-not-overtake-normal",
							format!("to_wait (item {k}) resolved at {w:?}, expected {expected:?}: it must observe the job state before the queued normal controls ran{}", dump()),
						);
						return o;
					}
				}
			}
		}
		2 => {
			// timer armed: to_wait may be handled at once, but still resolves when the process is killed at expiry
			if del_pos.is_none() {
				for (k, it) in c.items.iter().enumerate() {
					if *it == Item::ToWait {
						let w = trace.steps[b.item_steps[k]].waiters[0];
						if w != Some(b.release) {
							o.fail("to-wait-during-grace", format!("to_wait (item {k}) resolved at {w:?}, expected the kill at {}{}", b.release, dump()));
							return o;
						}
					}
				}
			}
		}
		_ => {}
	}
	o
}

fn strategy() -> BoxedStrategy<C10Case> {
	let plain_item = prop_oneof![6 => Just(Item::Run), 2 => Just(Item::ToWait)];
	let plain = (proptest::collection::vec(plain_item, 3..30), proptest::option::weighted(0.3, any::<u16>())).prop_map(|(mut v, del)| {
		if let Some(p) = del {
			let at = crate::engine::idx(p, v.len() + 1);
			v.insert(at, Item::DeleteNow);
		}
		v
	});
	// high-over-normal scenarios: start / stop+start queued together with to_wait, any interleaving with markers
	let hon = (proptest::collection::vec(Just(Item::Run), 0..5), any::<u16>(), any::<u16>(), any::<u16>(), any::<bool>()).prop_map(|(mut v, a, b2, c2, with_stop)| {
		let ins = |v: &mut Vec<Item>, it: Item, p: u16, min: usize| {
			let at = min + crate::engine::idx(p, v.len() + 1 - min);
			v.insert(at, it);
			at
		};
		if with_stop {
			let s = ins(&mut v, Item::Stop, a, 0);
			ins(&mut v, Item::Start, b2, s + 1);
		} else {
			ins(&mut v, Item::Start, b2, 0);
		}
		ins(&mut v, Item::ToWait, c2, 0);
		if (a ^ b2) % 2 == 0 {
			ins(&mut v, Item::RawWait, a.rotate_left(7) ^ c2, 0);
		}
		(v, with_stop)
	});
	prop_oneof![
		3 => (0u8..3, any::<bool>(), plain, any::<bool>(), any::<u8>(), proptest::bool::weighted(0.35)).prop_map(|(mode, running, items, same_instant, sched, exit_in_gate)| C10Case {
			mode,
			running: running || mode == 2,
			items: if mode == 2 { items.into_iter().filter(|i| *i != Item::DeleteNow).collect() } else { items },
			same_instant,
			sched,
			exit_in_gate,
		}),
		2 => (hon, any::<bool>(), any::<u8>()).prop_map(|((items, with_stop), same_instant, sched)| C10Case {
			mode: 0,
			running: with_stop,
			items,
			same_instant,
			sched,
			exit_in_gate: false,
		}),
	]
	.boxed()
}

// ---------------------------------------------------------------- concurrent senders, real threads

#[derive(Clone, Debug, Serialize, Deserialize)]
pub struct MtCase {
	pub senders: u8,
	pub per_sender: u8,
	pub yields: Vec<u8>,
}

fn run_mt(c: &MtCase) -> Outcome {
	let mut o = Outcome::pass();
	o.nontrivial = c.senders >= 2;
	let rt = tokio::runtime::Builder::new_multi_thread().worker_threads(4).enable_all().build().unwrap();
	let res: Result<(), (String, String)> = rt.block_on(async {
		let (job, task) = start_job(Arc::new(Command {
			program: Program::Exec { prog: "/bin/true".into(), args: vec![] },
			options: SpawnOptions::default(),
		}));
		let seen: Arc<Mutex<Vec<(u8, u8)>>> = Arc::new(Mutex::new(Vec::new()));
		let mut handles = Vec::new();
		for s in 0..c.senders {
			let job = job.clone();
			let seen = seen.clone();
			let n = c.per_sender;
			let ys = c.yields.clone();
			handles.push(tokio::spawn(async move {
				let mut last = None;
				for i in 0..n {
					let seen2 = seen.clone();
					last = Some(job.run(move |_| seen2.lock().unwrap().push((s, i))));
					let y = ys.get((s as usize * 7 + i as usize) % ys.len().max(1)).copied().unwrap_or(0);
					for _ in 0..(y % 3) {
						tokio::task::yield_now().await;
					}
				}
				if let Some(t) = last {
					if tokio::time::timeout(std::time::Duration::from_secs(20), t).await.is_err() {
						return Err(("mt:last-ticket-timeout".to_string(), format!("sender {s}: last ticket did not resolve in 20 s")));
					}
				}
				// awaiting the last ticket implies every earlier control of this sender has run
				let mine = seen.lock().unwrap().iter().filter(|x| x.0 == s).count();
				if mine != n as usize {
					return Err((
						"mt:last-ticket-before-earlier-controls".to_string(),
						format!("sender {s}: last ticket resolved but only {mine}/{n} of its controls had run"),
					));
				}
				Ok(())
			}));
		}
		for h in handles {
			h.await.map_err(|e| ("mt:sender-panicked".to_string(), e.to_string()))??;
		}
		let seen = seen.lock().unwrap().clone();
		for s in 0..c.senders {
			let mine: Vec<u8> = seen.iter().filter(|x| x.0 == s).map(|x| x.1).collect();
			let want: Vec<u8> = (0..c.per_sender).collect();
			if mine != want {
				return Err(("mt:per-sender-order".to_string(), format!("sender {s}: executed {mine:?}, sent 0..{}", c.per_sender)));
			}
		}
		job.delete_now().await;
		let _ = task.await;
		Ok(())
	});
	if let Err((sig, msg)) = res {
		o.fail(sig, format!("{msg}\ncase: {c:?}"));
	}
	o
}

// ---------------------------------------------------------------- long bursts: the k-th closure sends the priority control

#[derive(Clone, Debug, Serialize, Deserialize)]
pub struct LongCase {
	pub n: u16,
	/// 1-based index of the closure that sends the priority control from inside the job task
	pub k: u16,
	/// true: delete_now (urgent), false: to_wait (high)
	pub urgent: bool,
	/// queue the closures while the task is busy in a gate (true) or send them to an idle task (false)
	pub gated: bool,
}

fn run_long(c: &LongCase) -> Outcome {
	use std::sync::atomic::{AtomicUsize, Ordering};
	let mut o = Outcome::pass();
	let n = usize::from(c.n.max(2));
	let k = usize::from(c.k).clamp(1, n - 1);
	o.nontrivial = n >= 100;
	if k >= 120 {
		o.label("k>=120");
	}
	let rt = tokio::runtime::Builder::new_current_thread().enable_all().start_paused(true).build().unwrap();
	let res: Result<(usize, Option<bool>, bool), String> = rt.block_on(async {
		let (job, task) = start_job(Arc::new(Command {
			program: Program::Exec { prog: "/bin/true".into(), args: vec![] },
			options: SpawnOptions::default(),
		}));
		let ran = Arc::new(AtomicUsize::new(0));
		// what closure k+1 saw: was the to_wait ticket sent by closure k already resolved?
		let seen_resolved: Arc<Mutex<Option<bool>>> = Arc::new(Mutex::new(None));
		let wait_ticket: Arc<Mutex<Option<watchexec_supervisor::job::Ticket>>> = Arc::new(Mutex::new(None));
		let (gate_s, gate_r) = tokio::sync::oneshot::channel::<()>();
		if c.gated {
			job.run_async(move |_| {
				Box::new(async move {
					let _ = gate_r.await;
				})
			});
			tokio::time::sleep(std::time::Duration::from_millis(5)).await;
		}
		let mut last = None;
		for i in 1..=n {
			let ran = ran.clone();
			let job2 = job.clone();
			let urgent = c.urgent;
			let seen_resolved = seen_resolved.clone();
			let wait_ticket = wait_ticket.clone();
			last = Some(job.run(move |_| {
				ran.fetch_add(1, Ordering::SeqCst);
				if i == k {
					if urgent {
						drop(job2.delete_now());
					} else {
						*wait_ticket.lock().unwrap() = Some(job2.to_wait());
					}
				} else if i == k + 1 && !urgent {
					if let Some(t) = wait_ticket.lock().unwrap().take() {
						use futures::FutureExt;
						*seen_resolved.lock().unwrap() = Some(t.now_or_never().is_some());
					}
				}
			}));
		}
		if c.gated {
			let _ = gate_s.send(());
		}
		let done = if c.urgent {
			tokio::time::timeout(std::time::Duration::from_secs(30), task).await.is_ok()
		} else {
			let ok = tokio::time::timeout(std::time::Duration::from_secs(30), last.unwrap()).await.is_ok();
			job.delete_now().await;
			let _ = task.await;
			ok
		};
		let sr = *seen_resolved.lock().unwrap();
		Ok((ran.load(Ordering::SeqCst), sr, done))
	});
	let (ran, seen_resolved, done) = match res {
		Ok(x) => x,
		Err(e) => {
			o.fail("harness:long-burst", e);
			return o;
		}
	};
	if !done {
		o.fail("long-burst:did-not-finish", format!("the job did not get through the burst in 30 s of virtual time (ran {ran})\ncase {c:?}"));
		return o;
	}
	if c.urgent {
		// delete_now sent by closure k while closures k+1..n are pending: none of them may run
		if ran != k {
			o.fail(
				"urgent-did-not-overtake-normal",
				format!("closure {k} of {n} sent delete_now from inside the job task; {ran} closures ran, expected exactly {k} (the urgent control must run before every pending normal one)\ncase {c:?}"),
			);
		}
	} else {
		if ran != n {
			o.fail("long-burst:closure-lost", format!("{ran} of {n} closures ran\ncase {c:?}"));
			return o;
		}
		// to_wait on a job that runs nothing resolves as soon as it is executed; it is high priority, so it must
		// have been executed before the next pending normal closure
		if seen_resolved != Some(true) {
			o.fail(
				"high-did-not-overtake-normal",
				format!("closure {k} of {n} sent to_wait from inside the job task; closure {} found its ticket resolved: {seen_resolved:?}\ncase {c:?}", k + 1),
			);
		}
	}
	o
}

// ---------------------------------------------------------------- every handle dropped with controls queued behind an armed grace timer

#[derive(Clone, Debug, Serialize, Deserialize)]
pub struct DropCase {
	/// 0 stop_with_signal, 1 try_restart_with_signal, 2 no graceful control at all (plain queue)
	pub kind: u8,
	pub grace_ms: u16,
	pub closures: u8,
	/// virtual ms between the last control and the drop of the last handle
	pub drop_after_ms: u16,
}

fn run_drop(c: &DropCase) -> Outcome {
	let mut o = Outcome::pass();
	o.nontrivial = c.kind % 3 != 2;
	let n = usize::from(c.closures.max(1));
	let rt = tokio::runtime::Builder::new_current_thread().enable_all().start_paused(true).build().unwrap();
	let (seen, ended): (Vec<usize>, bool) = rt.block_on(async {
		let world = crate::sim::World::new(SimSpec { children: vec![ChildSpec { self_exit: None, code: 0, react: React::Ignore }], ..Default::default() });
		let (job, task) = start_job(Arc::new(Command {
			program: Program::Exec { prog: "/bin/true".into(), args: vec![] },
			options: SpawnOptions::default(),
		}));
		world.set_hook(&job, None).await;
		job.start().await;
		let seen: Arc<Mutex<Vec<usize>>> = Arc::new(Mutex::new(Vec::new()));
		let g = std::time::Duration::from_millis(u64::from(c.grace_ms));
		match c.kind % 3 {
			0 => drop(job.stop_with_signal(crate::jobdrive::sig(0).0, g)),
			1 => drop(job.try_restart_with_signal(crate::jobdrive::sig(0).0, g)),
			_ => {}
		}
		for i in 0..n {
			let seen = seen.clone();
			drop(job.run(move |_| seen.lock().unwrap().push(i)));
		}
		if c.drop_after_ms > 0 {
			tokio::time::sleep(std::time::Duration::from_millis(u64::from(c.drop_after_ms))).await;
		}
		drop(job);
		let ended = tokio::time::timeout(std::time::Duration::from_millis(u64::from(c.grace_ms) + 5_000), task).await.is_ok();
		let s = seen.lock().unwrap().clone();
		(s, ended)
	});
	let want: Vec<usize> = (0..n).collect();
	if seen != want {
		o.fail(
			"controls-sent-before-the-last-handle-was-dropped-did-not-all-run",
			format!("closures that ran: {seen:?}, sent (all before the last handle was dropped): 0..{n}\ncase {c:?}"),
		);
	} else if !ended {
		o.fail("task-not-ended:after-last-handle-dropped", format!("the job task is still running 5 s after the grace period\ncase {c:?}"));
	}
	o
}

// ---------------------------------------------------------------------------------------------
// A high / urgent control that arrives while the job task is suspended inside the first control of a
// two-control operation (the Stop of restart(), whose kill takes a while to take effect)

#[derive(Clone, Debug, Serialize, Deserialize)]
pub struct KillLagCase {
	/// the killed process dies this many virtual ms after the kill
	pub lag_ms: u8,
	/// the overtaking control is sent this many ms after restart() (inside the lag when smaller)
	pub arrive_ms: u8,
	/// false = to_wait (high), true = delete_now (urgent)
	pub urgent: bool,
	/// run closures queued behind the restart (normal priority)
	pub closures: u8,
}

fn run_kill_lag(c: &KillLagCase) -> Outcome {
	let mut o = Outcome::pass();
	let lag = u64::from(c.lag_ms.max(2));
	let arrive = u64::from(c.arrive_ms).clamp(1, lag - 1);
	o.nontrivial = true;
	o.label(if c.urgent { "delete_now-inside-the-stop-of-a-restart" } else { "to_wait-inside-the-stop-of-a-restart" });
	let n = usize::from(c.closures);
	let rt = tokio::runtime::Builder::new_current_thread().enable_all().start_paused(true).build().unwrap();
	let (spawned, resolved_at, ran, ended, log) = rt.block_on(async {
		let world = crate::sim::World::new(SimSpec { children: vec![ChildSpec { self_exit: None, code: 0, react: React::Ignore }], kill_lag_ms: lag as u8, ..Default::default() });
		let (job, task) = start_job(Arc::new(Command {
			program: Program::Exec { prog: "/bin/true".into(), args: vec![] },
			options: SpawnOptions::default(),
		}));
		world.set_hook(&job, None).await;
		job.start().await;
		let t0 = tokio::time::Instant::now();
		drop(job.restart());
		let ran: Arc<Mutex<Vec<usize>>> = Arc::new(Mutex::new(Vec::new()));
		for i in 0..n {
			let ran = ran.clone();
			drop(job.run(move |_| ran.lock().unwrap().push(i)));
		}
		tokio::time::sleep(std::time::Duration::from_millis(arrive)).await;
		let mut resolved_at = None;
		if c.urgent {
			let t = job.delete_now();
			let _ = tokio::time::timeout(std::time::Duration::from_secs(5), t).await;
		} else {
			let t = job.to_wait();
			if tokio::time::timeout(std::time::Duration::from_secs(5), t).await.is_ok() {
				resolved_at = Some((tokio::time::Instant::now() - t0).as_millis() as u64);
			}
			// let the rest of the restart and the closures run, then end the job
			tokio::time::sleep(std::time::Duration::from_millis(50)).await;
			let _ = tokio::time::timeout(std::time::Duration::from_secs(5), job.delete_now()).await;
		}
		drop(job);
		let ended = tokio::time::timeout(std::time::Duration::from_secs(5), task).await.is_ok();
		let r = ran.lock().unwrap().clone();
		(world.spawned(), resolved_at, r, ended, world.log())
	});
	let dump = || format!("\ncase {c:?} (kill takes {lag} ms, overtaking control sent {arrive} ms after restart())\nlog {log:?}");
	if !ended {
		o.fail("task-not-ended:after-delete_now", format!("the job task was still running 5 s after delete_now{}", dump()));
		return o;
	}
	if c.urgent {
		// delete_now is pending when the task next looks at its queues (after the Stop): it runs before the
		// Start and the closures, so the command is never spawned again and no closure runs
		if spawned != 1 || !ran.is_empty() {
			o.fail(
				"urgent-did-not-overtake-the-rest-of-a-restart",
				format!("delete_now was pending when the Stop of restart() completed, yet {} further process(es) were spawned and closures {ran:?} ran before the job was deleted{}", spawned.saturating_sub(1), dump()),
			);
		}
	} else {
		// to_wait is pending when the Stop completes: it sees the command not running and resolves then,
		// before the Start of the restart
		match resolved_at {
			Some(t) if t <= lag + 1 => {}
			other => {
				o.fail(
					"high-did-not-overtake-the-rest-of-a-restart",
					format!("to_wait() was pending when the Stop of restart() completed at {lag} ms, but resolved at {other:?} ms (it attached to the replacement process){}", dump()),
				);
				return o;
			}
		}
		if spawned != 2 || ran != (0..n).collect::<Vec<_>>() {
			o.fail("controls-behind-restart-did-not-all-run", format!("{spawned} processes spawned (expected 2), closures that ran {ran:?} (expected 0..{n}){}", dump()));
		}
	}
	o
}

fn long_strategy() -> BoxedStrategy<LongCase> {
	// positions around powers of two get extra weight (batching / budget boundaries of the runtime)
	let k = prop_oneof![
		2 => 1u16..400,
		3 => (5u32..9, 0u16..5).prop_map(|(j, d)| ((1u16 << j) + d).saturating_sub(2)),
	];
	(k, 2u16..60, any::<bool>(), proptest::bool::weighted(0.8))
		.prop_map(|(k, extra, urgent, gated)| LongCase { n: k + extra, k, urgent, gated })
		.boxed()
}

pub fn check(e: &Engine) {
	e.assume("urgent-before-high has no API-visible consequence (a to_wait ticket resolves at the same instant either way) and is not asserted");
	e.assume("cross-priority order is asserted only for controls pending while the job task is busy (gated bursts), as the property states; a task parked in select! picks its first control at random");
	e.explore(
		"ordering",
		LegOpts::det(
			e.tier.pick(10_000, 200_000),
			"bursts of 3-30 controls (run markers, to_wait, optional delete_now; start/stop+start vs to_wait scenarios) sent to a gated (in a third of those cases the process exits during the gate, so its exit and the pending controls are taken up at the same instant), parked or grace-timer-armed job, in one instant or 1 ms apart; non-trivial = >=2 priorities and >=3 controls",
		),
		&strategy,
		&run,
	);
	e.require_label("ordering", "2+priorities", 0.5);
	e.explore(
		"arrival-during-kill",
		LegOpts::det(
			e.tier.pick(400, 8_000),
			"restart() (two normal controls sent by one call) on a running job whose killed process takes 2-60 virtual ms to die, 0-4 closures behind it, and a to_wait (high) or delete_now (urgent) sent while the job task is suspended inside the Stop: when the task next looks at its queues the high / urgent control runs before the Start and the closures (to_wait resolves the moment the Stop completes; after delete_now nothing is spawned again and no closure runs)",
		),
		&|| (2u8..60, 1u8..60, any::<bool>(), 0u8..5).prop_map(|(lag_ms, arrive_ms, urgent, closures)| KillLagCase { lag_ms, arrive_ms, urgent, closures }).boxed(),
		&run_kill_lag,
	);
	e.explore(
		"long-burst",
		LegOpts::det(
			e.tier.pick(600, 12_000),
			"3-460 run closures queued (80% while the task is busy in a gate), the k-th of which (k uniform, or within 2 of a power of two from 32 to 256) itself sends delete_now or to_wait from inside the job task: after delete_now exactly k closures have run; after to_wait closure k+1 finds the ticket resolved; non-trivial = 100 or more closures",
		),
		&long_strategy,
		&run_long,
	);
	e.require_label("long-burst", "k>=120", 0.3);
	e.explore(
		"drop-with-armed-timer",
		LegOpts::det(
			e.tier.pick(300, 6_000),
			"a running (simulated, signal-ignoring) process, a graceful stop or graceful try-restart with a grace period of 50-400 ms (or none), 1-8 run closures queued behind it, then the last Job handle is dropped 0-500 ms later (before, at or after the deadline): every closure sent before the drop runs, in order, exactly once, and the task ends; non-trivial = a grace timer is armed",
		),
		&|| {
			(0u8..3, prop_oneof![Just(50u16), Just(200), Just(400)], 1u8..9, prop_oneof![Just(0u16), Just(1), Just(100), Just(200), Just(500)])
				.prop_map(|(kind, grace_ms, closures, drop_after_ms)| DropCase { kind, grace_ms, closures, drop_after_ms })
				.boxed()
		},
		&run_drop,
	);
	e.explore(
		"concurrent-senders",
		LegOpts {
			cases: e.tier.pick(300, 4000),
			shards: 4,
			threads: 4,
			confirm: 0,
			max_shrink_iters: 50,
			rule: "2-4 sender tasks on a multi-thread runtime (4 workers), 5-60 run markers each with generated yields; per-sender order and exactly-once; schedule is whatever the OS produces",
			confirm_any: &[],
		},
		&|| {
			(2u8..5, 5u8..60, proptest::collection::vec(any::<u8>(), 1..8))
				.prop_map(|(senders, per_sender, yields)| MtCase { senders, per_sender, yields })
				.boxed()
		},
		&run_mt,
	);
}
