//! C07 — every control completes and every ticket resolves.
//!
//! Model-free oracle: a `run` marker is sent right behind every control. Markers are
//! normal-priority, so (FIFO within a priority, normal queue held back while a grace timer is
//! armed) the instant the marker executes is an upper bound for the completion of the control
//! before it — for a graceful stop that is exactly min(child exit, grace expiry). Waiters are
//! bare `ticket.await` tasks whose *completion instants* (virtual time) are compared with that
//! bound; nothing is wrapped in a timeout, so a lost wake-up shows as "never completed".

use proptest::prelude::*;

use crate::{
	engine::{Engine, LegOpts, Outcome},
	jobdrive::{run_case, JobCase, Op, Trace},
	jobgen,
	sim::{ChildSpec, Ev, React, SimSpec},
};

fn spawn_reap_intervals(trace: &Trace) -> Vec<(u64, Option<u64>)> {
	let mut v: Vec<(u64, Option<u64>)> = Vec::new();
	for r in &trace.log {
		match &r.ev {
			Ev::Spawned { child } => {
				while v.len() <= *child {
					v.push((0, None));
				}
				v[*child] = (r.ms(), None);
			}
			Ev::WaitDone { child, .. } | Ev::TryWait { child, raw: Some(_) } => {
				if let Some(e) = v.get_mut(*child) {
					if e.1.is_none() {
						e.1 = Some(r.ms());
					}
				}
			}
			_ => {}
		}
	}
	v
}

pub fn run(case: &JobCase) -> Outcome {
	let mut o = Outcome::pass();
	let trace = run_case(case);
	let steps = &case.steps;
	let end = trace.task_end;

	// ---- labels / non-triviality
	let multi = steps.iter().any(|s| s.waiters >= 2 && !matches!(s.op, Op::DropHandle));
	if multi {
		o.label("multi-waiter");
	}
	let has_term = steps.iter().any(|s| matches!(s.op, Op::Delete | Op::DeleteNow | Op::DropHandle));
	if has_term {
		o.label("termination");
	}
	let injected = trace.log.iter().any(|r| {
		matches!(
			r.ev,
			Ev::SpawnFailed { .. } | Ev::StartKill { ok: false, .. } | Ev::Signal { ok: false, .. }
		)
	});
	if injected {
		o.label("fault-hit");
	}
	// graceful control whose child ended strictly inside the grace period
	let intervals = spawn_reap_intervals(&trace);
	let mut early_exit = false;
	for (i, s) in steps.iter().enumerate() {
		if let Op::StopSig { grace, .. } | Op::RestartSig { grace, .. } | Op::TryRestartSig { grace, .. } = s.op {
			let t = trace.steps[i].sent_ms;
			if intervals
				.iter()
				.any(|(sp, reap)| *sp <= t && reap.map_or(false, |r| r > t && r < t + u64::from(grace)))
			{
				early_exit = true;
			}
		}
	}
	if early_exit {
		o.label("child-exits-inside-grace");
	}
	let pending_at_end = end.map_or(false, |(e, _)| {
		trace
			.steps
			.iter()
			.filter(|s| s.sent && s.waiters.iter().any(|w| w.map_or(true, |t| t >= e)))
			.count() >= 2
	});
	if pending_at_end {
		o.label("termination-with-2+-outstanding");
	}
	o.nontrivial = multi || early_exit || pending_at_end || injected;

	let dump = || format!("\nsteps: {:?}\nmarkers: {:?}\ntask_end: {:?}\nlog: {}", trace.steps, trace.markers, trace.task_end, jobgen::fmt_log(&trace));

	// ---- (4) the job task never panics
	if let Some((t, true)) = end {
		let after_drop = steps.iter().any(|s| s.op == Op::DropHandle);
		o.fail(
			if after_drop { "task-panic:after-last-handle-dropped" } else { "task-panic" },
			format!("job task panicked at {t} ms{}", dump()),
		);
		return o;
	}

	// ---- (3) termination ops end the task
	let first_term = steps.iter().position(|s| matches!(s.op, Op::Delete | Op::DeleteNow | Op::DropHandle));
	if let Some(ti) = first_term {
		if trace.steps[ti].sent && end.is_none() {
			let sig = match steps[ti].op {
				Op::DropHandle => "task-not-ended:after-last-handle-dropped",
				Op::Delete => "task-not-ended:after-delete",
				_ => "task-not-ended:after-delete-now",
			};
			o.fail(sig, format!("step {ti} ({}) was sent at {} ms but the job task never ended{}", steps[ti].op.name(), trace.steps[ti].sent_ms, dump()));
			return o;
		}
		if let (Some(false), Some(_)) = (trace.is_dead_at_end, end) {
			o.fail("is-dead-false-after-end", format!("job task ended but Job::is_dead() is false{}", dump()));
			return o;
		}
	}

	// ---- (1) markers: at most once; exactly once when they must run
	// Which closures must have run although the job ended: only those queued (same priority,
	// FIFO) ahead of a normal-priority delete, and only when nothing could overtake them
	// (no delete_now anywhere in the case). A handle drop guarantees nothing about queued controls.
	let any_delete_now = steps.iter().enumerate().any(|(i, s)| s.op == Op::DeleteNow && trace.steps[i].sent);
	let first_delete = steps.iter().enumerate().position(|(i, s)| s.op == Op::Delete && trace.steps[i].sent);
	for (i, s) in steps.iter().enumerate() {
		if !trace.steps[i].sent {
			continue;
		}
		let mut kinds = Vec::new();
		if matches!(s.op, Op::Run | Op::RunAsync { .. }) {
			kinds.push(false);
		}
		if case.track && s.op != Op::DropHandle {
			kinds.push(true);
		}
		for behind in kinds {
			let n = trace.markers.iter().filter(|m| m.step == i && m.behind == behind).count();
			if n > 1 {
				o.fail("marker-ran-twice", format!("marker of step {i} (behind={behind}) ran {n} times{}", dump()));
				return o;
			}
			let must = match end {
				None => true,
				Some(_) => match first_delete {
					Some(d) if !any_delete_now => i < d,
					_ => false,
				},
			};
			if must && n == 0 {
				o.fail(
					"marker-never-ran",
					format!("closure of step {i} ({}, behind={behind}) was sent to a live job but never ran{}", s.op.name(), dump()),
				);
				return o;
			}
		}
	}

	// ---- (2) ticket deadlines
	let busy_possible = steps.iter().any(|s| matches!(s.op, Op::RunAsync { delay } if delay > 0));
	for (i, s) in steps.iter().enumerate() {
		let so = &trace.steps[i];
		if !so.sent || s.op == Op::DropHandle {
			continue;
		}
		let t_sent = so.sent_ms;
		let marker_t = trace.markers.iter().find(|m| m.step == i && m.behind).map(|m| m.t_ms);
		let deadline: Option<u64> = match s.op {
			Op::ToWait => {
				if busy_possible {
					end.map(|(e, _)| e.max(t_sent))
				} else {
					let tie = intervals.iter().any(|(sp, reap)| *sp == t_sent || *reap == Some(t_sent));
					let running = intervals.iter().find(|(sp, reap)| *sp < t_sent && reap.map_or(true, |r| r > t_sent));
					if tie {
						end.map(|(e, _)| e.max(t_sent))
					} else if let Some((_, reap)) = running {
						match (reap, end) {
							(Some(r), Some((e, _))) => Some((*r).min(e.max(t_sent))),
							(Some(r), None) => Some(*r),
							(None, Some((e, _))) => Some(e.max(t_sent)),
							(None, None) => None,
						}
					} else {
						Some(t_sent)
					}
				}
			}
			Op::DeleteNow => end.map(|(e, _)| e.max(t_sent)),
			_ => match (marker_t, end) {
				(Some(m), _) => Some(m),
				(None, Some((e, _))) => Some(e.max(t_sent)),
				(None, None) => None,
			},
		};
		let Some(deadline) = deadline else { continue };
		let late: Vec<(usize, Option<u64>)> = so
			.waiters
			.iter()
			.copied()
			.enumerate()
			.filter(|(_, w)| w.map_or(true, |t| t > deadline))
			.collect();
		if late.is_empty() {
			continue;
		}
		let some_ok = late.len() < so.waiters.len();
		let never = late.iter().all(|(_, w)| w.is_none());
		let job_ended_first = end.map_or(false, |(e, _)| e <= deadline) && marker_t.is_none();
		let sig = if some_ok {
			"waiters-diverge:only-some-waiters-of-one-ticket-wake".to_string()
		} else if job_ended_first && so.waiters.len() == 1 && trace.steps.iter().filter(|x| x.sent && !x.waiters.is_empty()).count() >= 2 && never {
			// a single-waiter ticket stranded at job end while other tickets were outstanding too
			"job-end:outstanding-ticket-never-wakes".to_string()
		} else if never {
			let early = early_exit && s.op.is_graceful();
			format!("ticket-never-resolves:{}{}", s.op.name(), if early { ":child-exits-inside-grace" } else { "" })
		} else {
			format!("ticket-late:{}", s.op.name())
		};
		o.fail(
			sig,
			format!(
				"step {i} ({:?}) sent at {t_sent} ms: deadline {deadline} ms (marker-behind={marker_t:?}, job end={end:?}) but waiter completion instants are {:?}{}",
				s.op,
				so.waiters,
				dump()
			),
		);
		return o;
	}

	// ---- tickets of the markers themselves resolve when the marker ran
	for (i, so) in trace.steps.iter().enumerate() {
		if let Some(bt) = so.behind_ticket {
			let ran = trace.markers.iter().find(|m| m.step == i && m.behind).map(|m| m.t_ms);
			let dl = match (ran, end) {
				(Some(m), _) => Some(m),
				(None, Some((e, _))) => Some(e.max(so.sent_ms)),
				_ => None,
			};
			if let Some(dl) = dl {
				if bt.map_or(true, |t| t > dl) {
					o.fail(
						"marker-ticket-late",
						format!("ticket of the marker behind step {i} resolved at {bt:?}, marker ran at {ran:?}, job end {end:?}{}", dump()),
					);
					return o;
				}
			}
		}
	}
	o
}

pub fn run_mt(c: &super::c04::MtCase) -> Outcome {
	let mut o = Outcome::pass();
	let trace = crate::jobdrive::run_case_mt(&c.case, c.senders, 3_000);
	o.nontrivial = c.case.steps.iter().any(|s| s.waiters >= 2);
	let term = c.case.steps.iter().any(|s| matches!(s.op, Op::Delete | Op::DeleteNow));
	if term {
		o.label("terminated");
	}
	let dump = || format!("\ncase {c:?}\nsteps: {:?}\ntask_end {:?}\nlog: {}", trace.steps, trace.task_end, jobgen::fmt_log(&trace));
	if let Some((t, true)) = trace.task_end {
		o.fail("task-panic", format!("job task panicked at {t} ms{}", dump()));
		return o;
	}
	if term && trace.task_end.is_none() {
		o.fail("task-not-ended:after-delete", format!("the job was deleted but its task is still running once everything is quiet{}", dump()));
		return o;
	}
	for (i, so) in trace.steps.iter().enumerate() {
		if !so.sent {
			continue;
		}
		if so.waiters.iter().any(Option::is_none) {
			let some = so.waiters.iter().any(Option::is_some);
			o.fail(
				if some { "waiters-diverge:only-some-waiters-of-one-ticket-wake".to_string() } else { format!("ticket-never-resolves:{}", c.case.steps[i].op.name()) },
				format!("step {i} ({:?}): waiter completion instants {:?} after every process has ended and 3 s of waiting{}", c.case.steps[i].op, so.waiters, dump()),
			);
			return o;
		}
		if so.behind_ticket == Some(None) {
			o.fail("marker-ticket-late", format!("ticket of the marker behind step {i} never resolved{}", dump()));
			return o;
		}
		let n = trace.markers.iter().filter(|m| m.step == i && m.behind).count();
		// with a termination in the case, closures queued behind it are dropped unrun (their tickets still resolve)
		if n > 1 || (n == 0 && !term) {
			o.fail(if n == 0 { "marker-never-ran" } else { "marker-ran-twice" }, format!("marker behind step {i} ran {n} times{}", dump()));
			return o;
		}
	}
	o
}

// ---------------------------------------------------------------------------------------------
// One task that awaits several tickets of the same job at once (a hand-written join: every ticket that is
// still pending is polled, in a fixed generated order, with the task's one waker)

#[derive(Clone, Debug, serde::Serialize, serde::Deserialize)]
pub struct JoinCase {
	/// tickets in send order: 0 run(closure) (completes when the gate opens), 1 to_wait (only the end of the
	/// process or of the job resolves it), 2 stop_with_signal with a 20 s grace period (outstanding during the
	/// grace period; only with `end` = delete_now), 3 signal (completes)
	pub kinds: Vec<u8>,
	/// poll order: ranks, sorted stably
	pub order: Vec<u8>,
	/// how the job ends: false = the last handle is dropped, true = delete_now
	pub delete_now: bool,
	/// further join tasks doing the same (each with its own waker and its own clones)
	pub tasks: u8,
	/// odd: one more waiter, a tokio task that awaits two clones of every ticket through
	/// `futures::stream::FuturesUnordered` (one task, a waker of its own for every inner future)
	#[serde(default)]
	pub combinator: u8,
}

pub fn run_join(c: &JoinCase) -> Outcome {
	use std::future::Future;
	use std::sync::{atomic::{AtomicBool, AtomicUsize, Ordering}, Arc};
	use std::task::{Context, Poll};
	use std::time::{Duration, Instant};
	use watchexec_signals::Signal;
	use watchexec_supervisor::{
		command::{Command, Program, SpawnOptions},
		job::start_job,
	};
	let mut o = Outcome::pass();
	let mut kinds: Vec<u8> = c.kinds.iter().map(|k| if *k % 4 == 2 && !c.delete_now { 1 } else { *k % 4 }).collect();
	// normal-priority controls behind a graceful stop wait for its grace period: the stops are sent last
	kinds.sort_by_key(|k| *k == 2);
	let n = kinds.len();
	let outstanding = kinds.iter().filter(|k| matches!(**k, 1 | 2)).count();
	let completing = n - outstanding;
	o.nontrivial = outstanding >= 1 && completing >= 1;
	let mut order: Vec<usize> = (0..n).collect();
	order.sort_by_key(|i| c.order.get(*i).copied().unwrap_or(0));
	// the shape that matters: some outstanding ticket is polled before some completing one
	let first_completing = order.iter().position(|i| !matches!(kinds[*i], 1 | 2));
	let first_outstanding = order.iter().position(|i| matches!(kinds[*i], 1 | 2));
	if let (Some(a), Some(b)) = (first_outstanding, first_completing) {
		if a < b {
			o.label("outstanding-polled-before-completing");
		}
	}
	o.label(if c.delete_now { "ends-by-delete_now" } else { "ends-by-last-handle-drop" });
	let logs = super::c08::Logs::new("vh-c07j-");
	let rt = tokio::runtime::Builder::new_multi_thread().worker_threads(2).enable_all().build().unwrap();
	let cmd = Arc::new(Command {
		program: Program::Exec {
			prog: super::c18::helper_path(),
			args: vec!["run".into(), "--log".into(), logs.log().to_string_lossy().into_owned(), "--lock".into(), logs.dir.path().join("lock").to_string_lossy().into_owned(), "--on-signal".into(), "ignore".into()],
		},
		options: SpawnOptions::default(),
	});
	let (job, task) = rt.block_on(async { start_job(cmd) });
	let started = rt.block_on(async { tokio::time::timeout(Duration::from_secs(5), job.start()).await.is_ok() });
	if !started {
		o.fail("env:helper-not-started", format!("start() did not complete within 5 s\ncase {c:?}"));
		return o;
	}
	// everything below is queued behind a gate, so that the first pass of every join task sees all tickets pending
	let (gate_s, gate_r) = tokio::sync::oneshot::channel::<()>();
	job.run_async(move |_| Box::new(async move { let _ = gate_r.await; }));
	let tickets: Vec<_> = kinds
		.iter()
		.map(|k| match k {
			0 => job.run(|_| {}),
			1 => job.to_wait(),
			2 => job.stop_with_signal(Signal::Terminate, Duration::from_secs(20)),
			_ => job.signal(Signal::Hangup),
		})
		.collect();
	let ntasks = usize::from(c.tasks.clamp(1, 3));
	let first_pass = Arc::new(AtomicUsize::new(0));
	let second_pass = Arc::new(AtomicUsize::new(0));
	let ended = Arc::new(AtomicBool::new(false));
	let mut th = Vec::new();
	for _ in 0..ntasks {
		let mut ts: Vec<_> = tickets.iter().cloned().collect();
		let (order, first_pass, second_pass, ended) = (order.clone(), first_pass.clone(), second_pass.clone(), ended.clone());
		th.push(std::thread::spawn(move || -> (usize, usize) {
			let (inner, waker) = slowwaker::new(0);
			let mut cx = Context::from_waker(&waker);
			let mut ready = vec![false; ts.len()];
			let mut passes = 0usize;
			let mut t_end: Option<Instant> = None;
			loop {
				for &i in &order {
					if !ready[i] {
						if let Poll::Ready(()) = std::pin::Pin::new(&mut ts[i]).poll(&mut cx) {
							ready[i] = true;
						}
					}
				}
				passes += 1;
				if passes == 1 {
					first_pass.fetch_add(1, Ordering::SeqCst);
				}
				if ready.iter().filter(|r| **r).count() >= completing {
					second_pass.fetch_add(1, Ordering::SeqCst);
				}
				if ready.iter().all(|r| *r) {
					return (0, 0);
				}
				// like a task: nothing but a wake-up makes it poll again
				loop {
					let guard = inner.woken.lock().unwrap();
					let (mut guard, _) = inner.cv.wait_timeout_while(guard, Duration::from_millis(20), |w| !*w).unwrap();
					if *guard {
						*guard = false;
						break;
					}
					drop(guard);
					if ended.load(Ordering::SeqCst) {
						let t = *t_end.get_or_insert_with(Instant::now);
						if t.elapsed() > Duration::from_millis(1500) {
							// not woken for 1.5 s after the job ended: are the tickets in fact resolved?
							let (_, w2) = slowwaker::new(0);
							let mut cx2 = Context::from_waker(&w2);
							let mut unwoken = 0;
							let mut unresolved = 0;
							for i in 0..ts.len() {
								if !ready[i] {
									if let Poll::Ready(()) = std::pin::Pin::new(&mut ts[i]).poll(&mut cx2) {
										unwoken += 1;
									} else {
										unresolved += 1;
									}
								}
							}
							return (unwoken, unresolved);
						}
					}
				}
			}
		}));
	}
	let combo_polled = Arc::new(AtomicBool::new(c.combinator % 2 == 0));
	let combo = (c.combinator % 2 == 1).then(|| {
		use futures::StreamExt;
		let ts: Vec<_> = tickets.iter().flat_map(|t| [t.clone(), t.clone()]).collect();
		let polled = combo_polled.clone();
		o.label("combinator-waiter");
		rt.spawn(async move {
			let mut fu: futures::stream::FuturesUnordered<_> = ts.into_iter().collect();
			let first = futures::poll!(fu.next());
			polled.store(true, Ordering::SeqCst);
			if matches!(first, Poll::Ready(None)) {
				return;
			}
			while fu.next().await.is_some() {}
		})
	});
	{
		let t = Instant::now();
		while !combo_polled.load(Ordering::SeqCst) && t.elapsed() < Duration::from_secs(5) {
			std::thread::sleep(Duration::from_micros(200));
		}
	}
	let wait_for = |ctr: &AtomicUsize| {
		let t = Instant::now();
		while ctr.load(Ordering::SeqCst) < ntasks && t.elapsed() < Duration::from_secs(5) {
			std::thread::sleep(Duration::from_micros(200));
		}
		ctr.load(Ordering::SeqCst) >= ntasks
	};
	let p1 = wait_for(&first_pass);
	let _ = gate_s.send(());
	let p2 = wait_for(&second_pass);
	std::thread::sleep(Duration::from_millis(30));
	// the job ends
	drop(tickets);
	if c.delete_now {
		drop(job.delete_now());
		drop(job);
	} else {
		drop(job);
	}
	ended.store(true, Ordering::SeqCst);
	let mut unwoken = 0;
	let mut unresolved = 0;
	for t in th {
		if let Ok((a, b)) = t.join() {
			unwoken += a;
			unresolved += b;
		}
	}
	let task_done = rt.block_on(async { tokio::time::timeout(Duration::from_secs(3), task).await.is_ok() });
	// the combinator task: every ticket resolves once the job has ended, so the stream must drain
	let combo_done = combo.as_ref().map_or(true, |h| {
		let t = Instant::now();
		while !h.is_finished() && t.elapsed() < Duration::from_millis(1500) {
			std::thread::sleep(Duration::from_millis(2));
		}
		h.is_finished()
	});
	rt.shutdown_timeout(Duration::from_millis(200));
	super::c08::kill_all(&logs.pids());
	if !p1 || !p2 {
		o.fail("harness:join-phases", format!("the join tasks did not reach their first / second pass (first {p1}, second {p2}): the completing controls did not complete within 5 s of the gate opening\ncase {c:?}"));
		return o;
	}
	if !combo_done && task_done {
		o.fail("joined-tickets:combinator-never-finished", format!("a tokio task awaiting two clones of every ticket through FuturesUnordered had not finished 1.5 s after the job task ended: some inner future was never woken\ncase {c:?} (kinds {kinds:?})"));
		return o;
	}
	if unwoken > 0 {
		o.fail("joined-tickets:never-woken", format!("{unwoken} ticket(s) had resolved when the job ended but the task awaiting them together with other tickets of the job was not woken for 1.5 s\ncase {c:?} (kinds after normalisation {kinds:?}, poll order {order:?})"));
	} else if unresolved > 0 {
		o.fail("joined-tickets:unresolved", format!("{unresolved} ticket(s) still unresolved 1.5 s after the job ended\ncase {c:?} (kinds {kinds:?}, poll order {order:?}, job task ended: {task_done})"));
	} else if !task_done {
		o.fail("joined-tickets:task-did-not-end", format!("the job task was still running 3 s after the job was ended\ncase {c:?}"));
	}
	o
}

// ---------------------------------------------------------------------------------------------
// Waiters that register at the very moment the control completes (the harness owns part of the schedule:
// each waiter's waker takes a generated time to clone, which is done while the ticket registers it)

#[derive(Clone, Debug, serde::Serialize, serde::Deserialize)]
pub struct RegRaceCase {
	/// per waiter thread: (start offset in µs after the release, µs its waker takes to clone)
	pub waiters: Vec<(u16, u16)>,
	/// true: the observed control is behind a gate that is released together with the waiters;
	/// false: the job is deleted (delete_now) at that moment and the waiters hold an outstanding to_wait ticket
	pub completes: bool,
	pub rounds: u8,
	/// the ticket is polled once (still pending) by a task that then goes away, and only then cloned for /
	/// moved to the waiters: a registration made by an earlier poll must not count for a later waiter
	#[serde(default)]
	pub prepoll: bool,
	/// the control completes / the job ends this many µs after the waiters were released (0 = together with
	/// them: registration races with the raise; 3000 = when they are all parked)
	#[serde(default)]
	pub end_delay_us: u16,
}

mod slowwaker {
	use std::sync::{Arc, Condvar, Mutex};
	use std::task::{RawWaker, RawWakerVTable, Waker};

	pub struct Inner {
		pub woken: Mutex<bool>,
		pub cv: Condvar,
		pub clone_us: u64,
	}

	unsafe fn clone(p: *const ()) -> RawWaker {
		let a = Arc::from_raw(p.cast::<Inner>());
		if a.clone_us > 0 {
			std::thread::sleep(std::time::Duration::from_micros(a.clone_us));
		}
		let b = a.clone();
		std::mem::forget(a);
		RawWaker::new(Arc::into_raw(b).cast(), &VTABLE)
	}
	unsafe fn wake(p: *const ()) {
		let a = Arc::from_raw(p.cast::<Inner>());
		*a.woken.lock().unwrap() = true;
		a.cv.notify_all();
	}
	unsafe fn wake_by_ref(p: *const ()) {
		let a = Arc::from_raw(p.cast::<Inner>());
		*a.woken.lock().unwrap() = true;
		a.cv.notify_all();
		std::mem::forget(a);
	}
	unsafe fn drop_w(p: *const ()) {
		drop(Arc::from_raw(p.cast::<Inner>()));
	}
	static VTABLE: RawWakerVTable = RawWakerVTable::new(clone, wake, wake_by_ref, drop_w);

	pub fn new(clone_us: u64) -> (Arc<Inner>, Waker) {
		let inner = Arc::new(Inner { woken: Mutex::new(false), cv: Condvar::new(), clone_us });
		let w = unsafe { Waker::from_raw(RawWaker::new(Arc::into_raw(inner.clone()).cast(), &VTABLE)) };
		(inner, w)
	}
}

pub fn run_regrace(c: &RegRaceCase) -> Outcome {
	use std::future::Future;
	use std::sync::{atomic::{AtomicUsize, Ordering}, Arc, Barrier};
	use std::task::{Context, Poll};
	use std::time::Duration;
	use watchexec_supervisor::{
		command::{Command, Program, SpawnOptions},
		job::start_job,
	};
	let mut o = Outcome::pass();
	o.nontrivial = c.waiters.len() >= 2;
	let rt = tokio::runtime::Builder::new_multi_thread().worker_threads(2).enable_all().build().unwrap();
	let n = c.waiters.len();
	let mut failure: Option<String> = None;
	for round in 0..usize::from(c.rounds.max(1)) {
		let lost = Arc::new(AtomicUsize::new(0));
		let resolved_unwoken = Arc::new(AtomicUsize::new(0));
		let (job, task) = rt.block_on(async { start_job(Arc::new(Command { program: Program::Exec { prog: "/bin/true".into(), args: Vec::new() }, options: SpawnOptions::default() })) });
		let (gate_s, gate_r) = tokio::sync::oneshot::channel::<()>();
		let entered = Arc::new(std::sync::atomic::AtomicBool::new(false));
		let entered2 = entered.clone();
		job.run_async(move |_| {
			entered2.store(true, Ordering::SeqCst);
			Box::new(async move {
				let _ = gate_r.await;
			})
		});
		// the task must be inside the gate before anything else is sent (a high-priority control would overtake it)
		let t_enter = std::time::Instant::now();
		while !entered.load(Ordering::SeqCst) && t_enter.elapsed() < Duration::from_secs(5) {
			std::thread::sleep(Duration::from_micros(50));
		}
		// the observed ticket: a closure behind the gate, or a wait-for-end that only the job's end resolves
		let ticket = if c.completes { job.run(|_| {}) } else { job.to_wait() };
		let mut ticket = ticket;
		if c.prepoll {
			let (_, w0) = slowwaker::new(0);
			let mut cx0 = Context::from_waker(&w0);
			let _ = std::pin::Pin::new(&mut ticket).poll(&mut cx0);
		}
		let barrier = Arc::new(Barrier::new(n + 1));
		let mut th = Vec::new();
		for (off_us, clone_us) in c.waiters.clone() {
			let mut t = ticket.clone();
			let barrier = barrier.clone();
			let lost = lost.clone();
			let resolved_unwoken = resolved_unwoken.clone();
			th.push(std::thread::spawn(move || {
				let (inner, waker) = slowwaker::new(u64::from(clone_us));
				barrier.wait();
				if off_us > 0 {
					std::thread::sleep(Duration::from_micros(u64::from(off_us)));
				}
				let mut cx = Context::from_waker(&waker);
				loop {
					if let Poll::Ready(()) = std::pin::Pin::new(&mut t).poll(&mut cx) {
						return;
					}
					// registered: now only a wake-up may bring us back
					let guard = inner.woken.lock().unwrap();
					let (mut guard, res) = inner.cv.wait_timeout_while(guard, Duration::from_millis(1500), |w| !*w).unwrap();
					if res.timed_out() {
						drop(guard);
						// not woken for 1.5 s: is the ticket in fact resolved?
						let (_, w2) = slowwaker::new(0);
						let mut cx2 = Context::from_waker(&w2);
						if let Poll::Ready(()) = std::pin::Pin::new(&mut t).poll(&mut cx2) {
							resolved_unwoken.fetch_add(1, Ordering::SeqCst);
						} else {
							lost.fetch_add(1, Ordering::SeqCst);
						}
						return;
					}
					*guard = false;
				}
			}));
		}
		barrier.wait();
		if c.end_delay_us > 0 {
			std::thread::sleep(Duration::from_micros(u64::from(c.end_delay_us)));
		}
		if c.completes {
			let _ = gate_s.send(());
		} else {
			drop(job.delete_now());
			let _ = gate_s.send(());
		}
		for t in th {
			let _ = t.join();
		}
		let ru = resolved_unwoken.load(Ordering::SeqCst);
		let l = lost.load(Ordering::SeqCst);
		rt.block_on(async {
			job.delete_now().await;
			let _ = tokio::time::timeout(Duration::from_secs(3), task).await;
		});
		if ru > 0 {
			failure = Some(format!("round {round}: {ru} of {n} waiters were never woken although the ticket had resolved (they registered while the flag was being raised)"));
			break;
		}
		if l > 0 {
			failure = Some(format!("round {round}: {l} of {n} waiters saw the ticket still unresolved 1.5 s after the control completed / the job ended"));
			break;
		}
	}
	rt.shutdown_timeout(std::time::Duration::from_millis(200));
	if let Some(f) = failure {
		o.fail(if f.contains("never woken") { "waiters-diverge:registered-during-raise-never-woken" } else { "ticket-never-resolves:register-race" }, format!("{f}\ncase {c:?}"));
	}
	o
}

// ---------------------------------------------------------------------------------------------
// A graceful stop whose deadline falls inside a sustained flood of high-priority controls

#[derive(Clone, Debug, serde::Serialize, serde::Deserialize)]
pub struct HiFloodCase {
	/// 0 stop_with_signal, 1 restart_with_signal, 2 try_restart_with_signal
	pub kind: u8,
	pub grace_ms: u16,
	/// the flood starts this long after the graceful control (always before the deadline)
	pub lead_ms: u16,
	pub flooders: u8,
}

const HIFLOOD_SLACK_MS: u64 = 700;

pub fn run_hiflood(c: &HiFloodCase) -> Outcome {
	use std::sync::atomic::{AtomicBool, AtomicU64, Ordering};
	use std::sync::Arc;
	use std::time::{Duration, Instant};
	use watchexec_supervisor::{
		command::{Command, Program, SpawnOptions},
		job::start_job,
	};
	let mut o = Outcome::pass();
	o.nontrivial = true;
	let grace = u64::from(c.grace_ms);
	let flood_ms = grace + HIFLOOD_SLACK_MS + 500;
	let rt = tokio::runtime::Builder::new_multi_thread().worker_threads(3).enable_all().build().unwrap();
	let spec = SimSpec { children: vec![ChildSpec { self_exit: None, code: 0, react: React::Ignore }], ..Default::default() };
	struct Obs {
		t0_ms: u64,
		kill_ms: Option<u64>,
		ticket_ms: Option<u64>,
		sent: u64,
		flood_end_ms: u64,
		log: String,
	}
	let obs: Result<Obs, String> = rt.block_on(async {
		let world = crate::sim::World::new(spec);
		let command = Arc::new(Command { program: Program::Exec { prog: "/bin/true".into(), args: Vec::new() }, options: SpawnOptions::default() });
		let (job, task) = start_job(command);
		job.set_spawn_hook(world.hook(None)).await;
		job.start().await;
		if world.spawned() == 0 {
			return Err("simulated child was not spawned".into());
		}
		tokio::time::sleep(Duration::from_millis(20)).await;
		let t0_ms = world.now_ms();
		let g = Duration::from_millis(grace);
		let sg = crate::jobdrive::sig(0).0;
		let ticket = match c.kind % 3 {
			0 => job.stop_with_signal(sg, g),
			1 => job.restart_with_signal(sg, g),
			_ => job.try_restart_with_signal(sg, g),
		};
		// the ticket is awaited on a plain OS thread: a tokio task woken by the (busy) job task could sit in
		// that worker's LIFO slot until the job task yields
		let ticket_ms = Arc::new(AtomicU64::new(0));
		let waiter = {
			let ticket_ms = ticket_ms.clone();
			let world = world.clone();
			std::thread::spawn(move || {
				futures::executor::block_on(ticket);
				ticket_ms.store(world.now_ms().max(1), Ordering::SeqCst);
			})
		};
		tokio::time::sleep(Duration::from_millis(u64::from(c.lead_ms).min(grace.saturating_sub(10)))).await;
		let stop = Arc::new(AtomicBool::new(false));
		let sent = Arc::new(AtomicU64::new(0));
		let mut th = Vec::new();
		for _ in 0..c.flooders.clamp(1, 3) {
			let job = job.clone();
			let stop = stop.clone();
			let sent = sent.clone();
			th.push(std::thread::spawn(move || {
				let mut n = 0u64;
				while !stop.load(Ordering::Relaxed) {
					drop(job.to_wait());
					n += 1;
				}
				sent.fetch_add(n, Ordering::SeqCst);
			}));
		}
		let until = Instant::now() + Duration::from_millis(flood_ms);
		while Instant::now() < until {
			tokio::time::sleep(Duration::from_millis(5)).await;
		}
		stop.store(true, Ordering::SeqCst);
		let flood_end_ms = world.now_ms();
		for t in th {
			let _ = t.join();
		}
		// let the backlog drain, then end the job
		let _ = tokio::time::timeout(Duration::from_secs(20), job.run(|_| {})).await;
		job.delete_now().await;
		let _ = tokio::time::timeout(Duration::from_secs(5), task).await;
		let _ = waiter.join();
		let log = world.log();
		let kill_ms = log.iter().find(|r| matches!(r.ev, Ev::StartKill { .. })).map(crate::sim::Rec::ms);
		let t = ticket_ms.load(Ordering::SeqCst);
		Ok(Obs {
			t0_ms,
			kill_ms,
			ticket_ms: if t == 0 { None } else { Some(t) },
			sent: sent.load(Ordering::SeqCst),
			flood_end_ms,
			log: log.iter().take(12).map(|r| format!("{} ms {:?}", r.ms(), r.ev)).collect::<Vec<_>>().join("; "),
		})
	});
	rt.shutdown_timeout(std::time::Duration::from_millis(300));
	let obs = match obs {
		Ok(x) => x,
		Err(e) => {
			o.fail("harness:hiflood", e);
			return o;
		}
	};
	if obs.sent > 10_000 {
		o.label("flood>10000-controls");
	}
	let deadline = obs.t0_ms + grace;
	let dump = || format!("\ncase {c:?}\ngraceful control at {} ms, deadline {} ms, kill at {:?} ms, ticket resolved at {:?} ms, {} to_wait controls sent until {} ms\nchild log: {}", obs.t0_ms, deadline, obs.kill_ms, obs.ticket_ms, obs.sent, obs.flood_end_ms, obs.log);
	match obs.kill_ms {
		None => o.fail("hiflood:never-killed", format!("the process that ignores the signal was never force-killed{}", dump())),
		Some(k) if k + 1 < deadline => o.fail("hiflood:killed-before-grace", format!("force-killed {} ms before the grace period was over{}", deadline - k, dump())),
		Some(k) if k > deadline + HIFLOOD_SLACK_MS => o.fail(
			"hiflood:kill-starved-by-high-priority-controls",
			format!("force-killed {} ms after the grace period was over, while other threads kept the high-priority queue busy{}", k - deadline, dump()),
		),
		// only the graceful stop's own ticket is judged: a graceful restart's ticket belongs to the normal-priority
		// start behind it, which high-priority controls legitimately overtake for as long as they keep coming
		_ if c.kind % 3 != 0 => {}
		_ => match obs.ticket_ms {
			None => o.fail("ticket-never-resolves:graceful", format!("the graceful control's ticket never resolved{}", dump())),
			Some(t) if t > deadline + HIFLOOD_SLACK_MS + 300 => o.fail("ticket-late:graceful-under-high-priority-flood", format!("ticket resolved {} ms after the deadline{}", t - deadline, dump())),
			_ => {}
		},
	}
	o
}

pub fn check(e: &Engine) {
	e.assume("simulated children via the public spawn hook, paused tokio clock (ms ticks), current-thread runtime with generated select! seed");
	e.assume("completion bound of a control = execution instant of a run() marker queued right behind it (relies on per-priority FIFO, checked separately by C10)");
	e.explore(
		"tickets",
		LegOpts::det(
			e.tier.pick(12_000, 300_000),
			"random control sequences (<=14 steps) with a marker behind every step, 1-4 waiter tasks per ticket (clones), delete / delete_now / last-handle-drop at generated positions, spawn/kill/signal failures; non-trivial = >=2 waiters on a ticket, or child exits strictly inside a grace period, or termination with >=2 outstanding tickets, or an injected fault was hit",
		),
		&|| jobgen::job_case(jobgen::Profile::Tickets).boxed(),
		&run,
	);
	e.explore(
		"multi-thread",
		LegOpts {
			cases: e.tier.pick(200, 4_000),
			shards: 8,
			threads: 8,
			confirm: 1,
			max_shrink_iters: 10,
			rule: "2-4 concurrent sender tasks on a multi-thread runtime with real millisecond timers, 1-3 waiter tasks per ticket, a marker behind every control; every child exits by itself, so once the run is quiet (polled, at most 3 s) every ticket of every waiter must have resolved, every closure must have run exactly once and the task must not have panicked",
			confirm_any: &[],
		},
		&|| (jobgen::mt_case(), 2usize..5).prop_map(|(c, n)| super::c04::MtCase { case: c, senders: n }).boxed(),
		&run_mt,
	);
	e.explore(
		"register-during-raise",
		LegOpts {
			cases: e.tier.pick(24, 600),
			shards: 4,
			threads: 4,
			confirm: 1,
			max_shrink_iters: 6,
			rule: "4-24 OS threads each poll a clone of one ticket for the first time within 0-300 µs of the moment (or, in a third of the cases, 3 ms before) the control completes (a closure behind a gate that is released then) or the job ends (delete_now with a to_wait ticket outstanding); each thread's waker takes 0-400 µs to clone, which stretches the ticket's registration; in 40% of the cases the ticket has been polled once (pending) by a task that went away before it is cloned for the waiters; 10-30 rounds per case: a waiter that was not woken for 1.5 s although the ticket is resolved is a lost wake-up; non-trivial = 2 or more waiters",
			confirm_any: &[],
		},
		&|| {
			(
				proptest::collection::vec((prop_oneof![3 => Just(0u16), 1 => 0u16..300], prop_oneof![2 => Just(0u16), 2 => Just(50), 1 => 100u16..400]), 4..25),
				any::<bool>(),
				10u8..30,
				proptest::bool::weighted(0.4),
				prop_oneof![2 => Just(0u16), 1 => Just(3000u16)],
			)
				.prop_map(|(waiters, completes, rounds, prepoll, end_delay_us)| RegRaceCase { waiters, completes, rounds, prepoll, end_delay_us })
				.boxed()
		},
		&run_regrace,
	);
	e.explore(
		"joined-tickets",
		LegOpts {
			cases: e.tier.pick(48, 1_000),
			shards: 8,
			threads: 8,
			confirm: 1,
			max_shrink_iters: 8,
			rule: "1-3 hand-written join tasks (OS threads with their own waker, polling only when woken) each await clones of 2-5 tickets of one job running a real process that ignores signals: closures and signals (complete when a gate opens after the first pass), to_wait and a graceful stop with a 20 s grace period (outstanding); the pending tickets are polled in a generated fixed order with the task's one waker; then the job ends (last handle dropped, or delete_now): every ticket must have resolved and the task must have been woken within 1.5 s; in half of the cases one more waiter is a tokio task that awaits two clones of every ticket through FuturesUnordered (one task, one waker per inner future) and must finish too; non-trivial = at least one completing and one outstanding ticket",
			confirm_any: &[],
		},
		&|| {
			(proptest::collection::vec(0u8..4, 2..6), proptest::collection::vec(0u8..6, 5), any::<bool>(), 1u8..4, 0u8..2)
				.prop_map(|(kinds, order, delete_now, tasks, combinator)| JoinCase { kinds, order, delete_now, tasks, combinator })
				.boxed()
		},
		&run_join,
	);
	e.require_label("joined-tickets", "outstanding-polled-before-completing", 0.2);
	e.explore(
		"high-priority-flood",
		LegOpts {
			cases: e.tier.pick(6, 60),
			shards: 3,
			threads: 3,
			confirm: 3,
			max_shrink_iters: 4,
			rule: "real time, simulated child that ignores the signal: graceful stop / restart / try-restart with a grace period of 80-250 ms; from before the deadline until 1.2 s after it 1-3 OS threads send to_wait() (the high-priority control) as fast as they can: the force-kill must come no earlier than the deadline and no later than 700 ms after it, and the graceful stop's ticket (awaited on a plain thread) must resolve within a further 300 ms, while the flood is still going (a restart's ticket belongs to the normal-priority start, which the high-priority flood legitimately overtakes)",
			confirm_any: &[],
		},
		&|| (0u8..3, prop_oneof![Just(80u16), Just(150), Just(250)], prop_oneof![Just(0u16), Just(40)], 1u8..4).prop_map(|(kind, grace_ms, lead_ms, flooders)| HiFloodCase { kind, grace_ms, lead_ms, flooders }).boxed(),
		&run_hiflood,
	);
	e.require_label("high-priority-flood", "flood>10000-controls", 0.8);
	e.require_label("tickets", "multi-waiter", 0.2);
	e.require_label("tickets", "termination", 0.1);
	e.require_label("tickets", "child-exits-inside-grace", 0.03);
}
