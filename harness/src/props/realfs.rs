//! Real-filesystem leg shared by C01 (fs changes under a watched path reach the handler) and C13
//! (behavioural variant: after run-time path-set changes, touching files under configured paths is
//! observed). Full in-process Watchexec with the real native / poll watcher on a scratch tree.

use std::{
	collections::BTreeMap,
	path::{Path, PathBuf},
	sync::{Arc, Mutex},
	time::{Duration, Instant},
};

use proptest::prelude::*;
use serde::{Deserialize, Serialize};
use watchexec::{sources::fs::Watcher as Kind, Config, WatchedPath, Watchexec};
use watchexec_events::{Event, Priority, Tag};

use crate::engine::Outcome;

#[derive(Clone, Debug, Serialize, Deserialize, PartialEq, Eq)]
pub enum FsStep {
	/// configure the path set: bit i = dir i watched, bit i of rec = recursively.
	/// dirs: 0 = a, 1 = b, 2 = a/sub (nested in 0)
	SetPaths { mask: u8, rec: u8 },
	/// create a new file in dir i (at depth: 0 = directly, 1 = in an existing subdirectory "deep")
	Create { dir: u8, deep: bool },
	/// rewrite the last created file of dir i
	Write { dir: u8 },
	/// rename the last created file of dir i
	Rename { dir: u8 },
	/// remove the last created file of dir i
	Remove { dir: u8 },
	/// create a new directory in dir i
	Mkdir { dir: u8 },
}

#[derive(Clone, Debug, Serialize, Deserialize)]
pub struct RealFsCase {
	pub poll: bool,
	pub steps: Vec<FsStep>,
}

fn dir_path(root: &Path, i: u8) -> PathBuf {
	match i % 3 {
		0 => root.join("a"),
		1 => root.join("b"),
		_ => root.join("a").join("sub"),
	}
}

/// Is `p` covered by the configured set?
fn covered(cfg: &BTreeMap<PathBuf, bool>, p: &Path) -> bool {
	cfg.iter().any(|(d, rec)| if *rec { p.starts_with(d) && p != d } else { p.parent() == Some(d.as_path()) })
}

pub fn run(c: &RealFsCase) -> Outcome {
	let mut o = Outcome::pass();
	let base = if Path::new("/dev/shm").is_dir() { PathBuf::from("/dev/shm") } else { std::env::temp_dir() };
	let tmp = tempfile::Builder::new().prefix("vh-realfs-").tempdir_in(base).unwrap();
	let root = tmp.path().canonicalize().unwrap();
	for i in 0..3u8 {
		std::fs::create_dir_all(dir_path(&root, i).join("deep")).unwrap();
	}
	let interval = Duration::from_millis(40);
	let settle = if c.poll { interval * 4 } else { Duration::from_millis(120) };
	let seen: Arc<Mutex<Vec<(Instant, PathBuf)>>> = Arc::new(Mutex::new(Vec::new()));
	let rt = tokio::runtime::Builder::new_multi_thread().worker_threads(2).enable_all().build().unwrap();
	let reconfigs = c.steps.iter().filter(|s| matches!(s, FsStep::SetPaths { .. })).count();
	if reconfigs >= 2 {
		o.label("run-time-reconfiguration");
	}
	o.label(if c.poll { "poll-watcher" } else { "native-watcher" });
	let res: Result<(usize, bool), (String, String)> = rt.block_on(async {
		let config = Config::default();
		config.throttle(Duration::from_millis(10));
		if c.poll {
			config.file_watcher(Kind::Poll(interval));
		}
		let seen2 = seen.clone();
		config.on_action(move |mut action| {
			let now = Instant::now();
			let mut quit = false;
			for ev in action.events.iter() {
				if ev.tags.iter().any(|t| matches!(t, Tag::Process(p) if *p == u32::MAX)) {
					quit = true;
				}
				for (p, _) in ev.paths() {
					seen2.lock().unwrap().push((now, p.to_path_buf()));
				}
			}
			if quit {
				action.quit();
			}
			action
		});
		let wx = Watchexec::with_config(config).map_err(|e| ("harness:with_config".to_string(), e.to_string()))?;
		let mut main = wx.main();
		let mut cfg: BTreeMap<PathBuf, bool> = BTreeMap::new();
		let mut last: [Option<PathBuf>; 3] = [None, None, None];
		let mut counter = 0usize;
		let mut asserted = 0usize;
		let mut mode_flip = false;
		let mut prev_cfg: BTreeMap<PathBuf, bool> = BTreeMap::new();
		for (si, st) in c.steps.iter().enumerate() {
			let mut touched: Vec<PathBuf> = Vec::new();
			match st {
				FsStep::SetPaths { mask, rec } => {
					// never configure a directory and one of its sub-directories at the same time:
					// what the OS watcher does when one of two overlapping registrations is removed
					// is notify's business, not a claim of the properties (nested sets in
					// *successive* configurations - narrowing, widening - are kept)
					let mask = if mask & 0b101 == 0b101 { mask & !0b100 } else { *mask };
					let mask = &mask;
					let mut v = Vec::new();
					cfg.clear();
					for i in 0..3u8 {
						if mask >> i & 1 == 1 {
							let r = rec >> i & 1 == 1;
							let d = dir_path(&root, i);
							v.push(if r { WatchedPath::recursive(d.clone()) } else { WatchedPath::non_recursive(d.clone()) });
							cfg.insert(d, r);
						}
					}
					if cfg.iter().any(|(d, r)| prev_cfg.get(d).map_or(false, |pr| pr != r)) {
						mode_flip = true;
					}
					prev_cfg = cfg.clone();
					wx.config.pathset(v);
					tokio::time::sleep(settle).await;
					continue;
				}
				FsStep::Create { dir, deep } => {
					counter += 1;
					let d = dir_path(&root, *dir);
					let p = if *deep { d.join("deep").join(format!("f{counter}.txt")) } else { d.join(format!("f{counter}.txt")) };
					std::fs::write(&p, format!("{counter}")).map_err(|e| ("env:fs".to_string(), e.to_string()))?;
					last[(*dir % 3) as usize] = Some(p.clone());
					touched.push(p);
				}
				FsStep::Write { dir } => {
					if let Some(p) = last[(*dir % 3) as usize].clone() {
						counter += 1;
						if c.poll {
							// notify's poll watcher compares modification times in whole seconds:
							// a rewrite is only detectable once the clock second has changed
							let mtime = std::fs::metadata(&p).and_then(|m| m.modified()).ok();
							if let Some(mt) = mtime {
								// (file timestamps come from the kernel's coarse clock, which lags the
								// fine-grained one by up to a tick: stay 30 ms clear of the boundary)
								let ms = |t: std::time::SystemTime| t.duration_since(std::time::UNIX_EPOCH).map_or(0, |d| d.as_millis());
								let target = (ms(mt) / 1000 + 1) * 1000 + 30;
								while ms(std::time::SystemTime::now()) < target {
									tokio::time::sleep(Duration::from_millis(10)).await;
								}
							}
						}
						// change the size too, so that the poll watcher's metadata comparison sees it
						std::fs::write(&p, format!("rewritten {counter} {}", "x".repeat(counter))).map_err(|e| ("env:fs".to_string(), e.to_string()))?;
						touched.push(p);
					}
				}
				FsStep::Rename { dir } => {
					if let Some(p) = last[(*dir % 3) as usize].clone() {
						counter += 1;
						let q = p.with_file_name(format!("r{counter}.txt"));
						std::fs::rename(&p, &q).map_err(|e| ("env:fs".to_string(), e.to_string()))?;
						last[(*dir % 3) as usize] = Some(q.clone());
						touched.push(p);
						touched.push(q);
					}
				}
				FsStep::Remove { dir } => {
					if let Some(p) = last[(*dir % 3) as usize].take() {
						std::fs::remove_file(&p).map_err(|e| ("env:fs".to_string(), e.to_string()))?;
						touched.push(p);
					}
				}
				FsStep::Mkdir { dir } => {
					counter += 1;
					let p = dir_path(&root, *dir).join(format!("d{counter}"));
					std::fs::create_dir(&p).map_err(|e| ("env:fs".to_string(), e.to_string()))?;
					touched.push(p);
				}
			}
			if touched.is_empty() {
				continue;
			}
			let must = touched.iter().any(|p| covered(&cfg, p));
			let t0 = Instant::now();
			if must {
				asserted += 1;
				// any of the touched names must show up in a delivered event
				let deadline = t0 + Duration::from_millis(2500);
				let mut ok = false;
				while Instant::now() < deadline {
					if seen.lock().unwrap().iter().any(|(t, p)| *t >= t0 - Duration::from_millis(5) && touched.iter().any(|q| q == p)) {
						ok = true;
						break;
					}
					tokio::time::sleep(Duration::from_millis(5)).await;
				}
				if !ok {
					let sig = if mode_flip { "fs-change-not-delivered:after-recursion-mode-change" } else if reconfigs >= 2 { "fs-change-not-delivered:after-reconfiguration" } else { "fs-change-not-delivered" };
					return Err((
						sig.to_string(),
						format!("step {si} {st:?} touched {touched:?} under the configured set {cfg:?}, but no delivered event named it within 2.5 s\nevents seen: {:?}", seen.lock().unwrap().iter().map(|x| &x.1).collect::<Vec<_>>()),
					));
				}
			} else {
				tokio::time::sleep(settle).await;
			}
		}
		// nothing outside the scratch tree is ever reported
		if let Some((_, p)) = seen.lock().unwrap().iter().find(|(_, p)| !p.starts_with(&root)) {
			return Err(("event-outside-watched-tree".into(), format!("event names {p:?}, outside {root:?}")));
		}
		let quit = Event {
			tags: vec![Tag::Process(u32::MAX)],
			metadata: Default::default(),
		};
		let _ = wx.send_event(quit, Priority::Urgent).await;
		if tokio::time::timeout(Duration::from_secs(5), &mut main).await.is_err() {
			main.abort();
			return Err(("main-did-not-end-after-quit".into(), "hang".into()));
		}
		Ok((asserted, mode_flip))
	});
	rt.shutdown_timeout(Duration::from_millis(200));
	match res {
		Ok((asserted, mode_flip)) => {
			if mode_flip {
				o.label("recursion-mode-flip");
			}
			o.nontrivial = asserted >= 2;
		}
		Err((sig, msg)) => o.fail(sig, format!("{msg}\ncase {c:?}")),
	}
	o
}

pub fn strategy() -> BoxedStrategy<RealFsCase> {
	let op = prop_oneof![
		3 => (0u8..3, any::<bool>()).prop_map(|(dir, deep)| FsStep::Create { dir, deep }),
		2 => (0u8..3).prop_map(|dir| FsStep::Write { dir }),
		1 => (0u8..3).prop_map(|dir| FsStep::Rename { dir }),
		1 => (0u8..3).prop_map(|dir| FsStep::Remove { dir }),
		1 => (0u8..3).prop_map(|dir| FsStep::Mkdir { dir }),
		2 => (1u8..8, 0u8..8).prop_map(|(mask, rec)| FsStep::SetPaths { mask, rec }),
	];
	(any::<bool>(), (1u8..8, 0u8..8), proptest::collection::vec(op, 2..9))
		.prop_map(|(poll, (mask, rec), mut steps)| {
			steps.insert(0, FsStep::SetPaths { mask, rec });
			RealFsCase { poll, steps }
		})
		.boxed()
}
