//! Real-process legs for C04 and C06: the production job task supervising real `vhelper` processes
//! through process-wrap (no spawn hook), on a multi-thread runtime with real time.
//!
//! All assertions are written as *evidence of a violation* that stays sound under scheduling jitter:
//! "observed dead before the deadline", "observed alive after deadline + slack", "observed alive after
//! a held-back control ran", "a second helper could not take the lock". Jitter can only hide a
//! violation, never create one (the slack terms are the exception and are generous; real-time legs
//! are re-executed for confirmation by the engine).

use std::{
	sync::{
		atomic::{AtomicBool, AtomicU64, Ordering},
		Arc, Mutex,
	},
	time::Duration,
};

use proptest::prelude::*;
use serde::{Deserialize, Serialize};
use watchexec_signals::Signal;
use watchexec_supervisor::{
	command::{Command, Program, SpawnOptions},
	job::{start_job, Job},
};

use super::{
	c08::{alive, kill_all, Logs},
	c18::helper_path,
};
use crate::engine::Outcome;

pub const SIGS: [(Signal, i32); 6] = [
	(Signal::Terminate, libc::SIGTERM),
	(Signal::Interrupt, libc::SIGINT),
	(Signal::Hangup, libc::SIGHUP),
	(Signal::User1, libc::SIGUSR1),
	(Signal::User2, libc::SIGUSR2),
	(Signal::Quit, libc::SIGQUIT),
];

pub fn mono_ns() -> u64 {
	let mut ts = libc::timespec { tv_sec: 0, tv_nsec: 0 };
	unsafe {
		libc::clock_gettime(libc::CLOCK_MONOTONIC, &mut ts);
	}
	ts.tv_sec as u64 * 1_000_000_000 + ts.tv_nsec as u64
}

#[derive(Clone, Debug, Serialize, Deserialize)]
pub struct Helper {
	/// 0 plain, 1 grouped, 2 session
	pub wrap: u8,
	/// 0 exits at once on a signal, 1 ignores signals, 2 exits `delay_ms` after the first signal
	pub react: u8,
	pub delay_ms: u16,
	/// exits by itself this long after its start
	pub self_exit_ms: Option<u16>,
}

fn command(h: &Helper, logs: &Logs) -> Arc<Command> {
	let mut args: Vec<String> = vec![
		"run".into(),
		"--log".into(),
		logs.log().to_string_lossy().into_owned(),
		"--lock".into(),
		logs.dir.path().join("lock").to_string_lossy().into_owned(),
		"--on-signal".into(),
		match h.react % 3 {
			0 => "exit".into(),
			1 => "ignore".into(),
			_ => format!("delay:{}", h.delay_ms),
		},
	];
	if let Some(ms) = h.self_exit_ms {
		args.push("--exit-after".into());
		args.push(ms.to_string());
	}
	Arc::new(Command {
		program: Program::Exec { prog: helper_path(), args },
		options: SpawnOptions {
			grouped: h.wrap % 3 == 1,
			session: h.wrap % 3 == 2,
			..Default::default()
		},
	})
}

/// (pid, start ns) of every helper that reported in, in log order
fn starts(logs: &Logs) -> Vec<(i32, u64)> {
	logs.lines()
		.iter()
		.filter(|l| l.len() >= 3 && l[0] == "start")
		.filter_map(|l| Some((l[1].parse().ok()?, l[2].parse().ok()?)))
		.collect()
}

/// Spawn hook that, right before every spawn, looks for helpers of this job that are still in the
/// process table as children of this process (running or zombie): none may be, the previous child must
/// have been waited for. (A helper that has not logged its start yet is not seen: sensitivity only.)
fn install_reap_probe(job: &Job, logs: &Logs) -> Arc<Mutex<Vec<String>>> {
	let hits: Arc<Mutex<Vec<String>>> = Arc::new(Mutex::new(Vec::new()));
	let logp = logs.log();
	let me = std::process::id().to_string();
	let h = hits.clone();
	drop(job.set_spawn_hook(move |_, _| {
		let text = std::fs::read_to_string(&logp).unwrap_or_default();
		for l in text.lines() {
			let f: Vec<&str> = l.split_whitespace().collect();
			if f.len() >= 2 && f[0] == "start" {
				if let Ok(stat) = std::fs::read_to_string(format!("/proc/{}/stat", f[1])) {
					let rest: Vec<&str> = stat.rsplit(')').next().unwrap_or("").split_whitespace().collect();
					// after the ")": state, ppid
					if rest.len() >= 2 && rest[1] == me {
						h.lock().unwrap().push(format!("pid {} state {} at {}", f[1], rest[0], mono_ns()));
					}
				}
			}
		}
	}));
	hits
}

async fn wait_starts(logs: &Logs, n: usize, ms: u64) -> bool {
	let until = mono_ns() + ms * 1_000_000;
	while mono_ns() < until {
		if starts(logs).len() >= n {
			return true;
		}
		tokio::time::sleep(Duration::from_millis(2)).await;
	}
	starts(logs).len() >= n
}

/// Polls a pid from a dedicated thread: last instant it was seen alive, first instant it was seen dead.
struct Poller {
	last_alive: Arc<AtomicU64>,
	first_dead: Arc<AtomicU64>,
	stop: Arc<AtomicBool>,
	th: Option<std::thread::JoinHandle<()>>,
}

impl Poller {
	fn new(pid: i32) -> Self {
		let last_alive = Arc::new(AtomicU64::new(0));
		let first_dead = Arc::new(AtomicU64::new(0));
		let stop = Arc::new(AtomicBool::new(false));
		let (la, fd, st) = (last_alive.clone(), first_dead.clone(), stop.clone());
		let th = std::thread::spawn(move || {
			while !st.load(Ordering::SeqCst) {
				// the instant is taken BEFORE looking for "alive" and AFTER looking for "dead", so that both
				// are conservative: alive at or after last_alive, dead at or before first_dead
				let before = mono_ns();
				let a = alive(pid);
				if a {
					la.store(before, Ordering::SeqCst);
				} else {
					fd.store(mono_ns(), Ordering::SeqCst);
					return;
				}
				std::thread::sleep(Duration::from_micros(500));
			}
		});
		Self { last_alive, first_dead, stop, th: Some(th) }
	}
	fn finish(mut self) -> (u64, Option<u64>) {
		self.stop.store(true, Ordering::SeqCst);
		if let Some(t) = self.th.take() {
			let _ = t.join();
		}
		let fd = self.first_dead.load(Ordering::SeqCst);
		(self.last_alive.load(Ordering::SeqCst), if fd == 0 { None } else { Some(fd) })
	}
}

// ---------------------------------------------------------------------------------------------
// C06: one graceful control on a running real process

#[derive(Clone, Debug, Serialize, Deserialize)]
pub struct GraceCase {
	pub helper: Helper,
	/// 0 stop_with_signal, 1 restart_with_signal, 2 try_restart_with_signal
	pub kind: u8,
	pub sig: u8,
	pub grace_ms: u16,
	/// how long the process has been running when the control is sent
	pub pre_ms: u16,
	/// normal-priority markers sent this long after the graceful control
	pub followers: Vec<u16>,
}

const SLACK_NS: u64 = 1_500_000_000;

pub fn grace_strategy() -> BoxedStrategy<GraceCase> {
	let grace = prop_oneof![Just(0u16), Just(60), Just(150), Just(300), Just(600)];
	(
		(0u8..3, 0u8..3, prop_oneof![Just(0u16), Just(20), Just(100), Just(250), Just(500)], prop_oneof![3 => Just(None), 1 => prop_oneof![Just(120u16), Just(300), Just(500)].prop_map(Some)]),
		0u8..3,
		0u8..6,
		grace,
		prop_oneof![Just(30u16), Just(100)],
		proptest::collection::vec(prop_oneof![Just(0u16), Just(10), Just(50), Just(140), Just(310)], 0..3),
	)
		.prop_map(|((wrap, react, delay_ms, self_exit_ms), kind, sig, grace_ms, pre_ms, followers)| GraceCase {
			helper: Helper { wrap, react, delay_ms, self_exit_ms },
			kind,
			sig,
			grace_ms,
			pre_ms,
			followers,
		})
		.boxed()
}

pub fn run_grace(c: &GraceCase) -> Outcome {
	let mut o = Outcome::pass();
	let logs = Logs::new("vh-c06-");
	let rt = tokio::runtime::Builder::new_multi_thread().worker_threads(2).enable_all().build().unwrap();
	let grace_ns = u64::from(c.grace_ms) * 1_000_000;
	let (sig, signum) = SIGS[usize::from(c.sig) % SIGS.len()];
	struct Obs {
		pid: i32,
		start_ns: u64,
		t0: u64,
		last_alive: u64,
		first_dead: Option<u64>,
		ticket_ns: Option<u64>,
		markers: Vec<(usize, u64)>,
		unreaped: Vec<String>,
	}
	let res: Result<Obs, String> = rt.block_on(async {
		let (job, task) = start_job(command(&c.helper, &logs));
		let probe = install_reap_probe(&job, &logs);
		job.start().await;
		if !wait_starts(&logs, 1, 8_000).await {
			job.delete_now().await;
			return Err("env".into());
		}
		let (pid, start_ns) = starts(&logs)[0];
		tokio::time::sleep(Duration::from_millis(u64::from(c.pre_ms))).await;
		let poller = Poller::new(pid);
		let markers: Arc<Mutex<Vec<(usize, u64)>>> = Arc::new(Mutex::new(Vec::new()));
		let t0 = mono_ns();
		let g = Duration::from_millis(u64::from(c.grace_ms));
		let ticket = match c.kind % 3 {
			0 => job.stop_with_signal(sig, g),
			1 => job.restart_with_signal(sig, g),
			_ => job.try_restart_with_signal(sig, g),
		};
		let ticket_ns = Arc::new(AtomicU64::new(0));
		{
			let ticket_ns = ticket_ns.clone();
			tokio::spawn(async move {
				ticket.await;
				ticket_ns.store(mono_ns(), Ordering::SeqCst);
			});
		}
		let mut offs: Vec<(usize, u16)> = c.followers.iter().copied().enumerate().collect();
		offs.sort_by_key(|x| x.1);
		let mut elapsed = 0u16;
		for (i, off) in offs {
			if off > elapsed {
				tokio::time::sleep(Duration::from_millis(u64::from(off - elapsed))).await;
				elapsed = off;
			}
			let markers = markers.clone();
			job.run(move |_| {
				markers.lock().unwrap().push((i, mono_ns()));
			});
		}
		// wait until the old process is gone (bounded), then a little longer for the replacement
		let until = mono_ns() + grace_ns + u64::from(c.helper.delay_ms) * 1_000_000 + 4_000_000_000;
		while mono_ns() < until && alive(pid) {
			tokio::time::sleep(Duration::from_millis(2)).await;
		}
		// ... then until everything that has to follow has happened (bounded), plus a little longer so
		// that a second replacement would be seen
		let want_starts = if c.kind % 3 == 0 { 1 } else { 2 };
		let until = mono_ns() + 3_000_000_000;
		while mono_ns() < until
			&& !alive(pid)
			&& (starts(&logs).len() < want_starts || ticket_ns.load(Ordering::SeqCst) == 0 || markers.lock().unwrap().len() < c.followers.len())
		{
			tokio::time::sleep(Duration::from_millis(5)).await;
		}
		tokio::time::sleep(Duration::from_millis(200)).await;
		let (last_alive, first_dead) = poller.finish();
		let t = ticket_ns.load(Ordering::SeqCst);
		let obs = Obs {
			pid,
			start_ns,
			t0,
			last_alive,
			first_dead,
			ticket_ns: if t == 0 { None } else { Some(t) },
			markers: markers.lock().unwrap().clone(),
			unreaped: probe.lock().unwrap().clone(),
		};
		job.delete_now().await;
		let _ = tokio::time::timeout(Duration::from_secs(3), task).await;
		Ok(obs)
	});
	drop(rt);
	let lines = logs.lines();
	kill_all(&logs.pids());
	let obs = match res {
		Ok(x) => x,
		Err(_) => {
			o.fail("env:helper-not-started", format!("the helper did not report in within 8 s\ncase {c:?}"));
			return o;
		}
	};
	let dump = || {
		format!(
			"\ncase {c:?}\npid {} t0 {} (all instants below relative to t0, ms): start {:.1} last_alive {:.1} first_dead {:?} ticket {:?} markers {:?}\nhelper log:\n{}",
			obs.pid,
			obs.t0,
			rel(obs.start_ns, obs.t0),
			rel(obs.last_alive, obs.t0),
			obs.first_dead.map(|x| rel(x, obs.t0)),
			obs.ticket_ns.map(|x| rel(x, obs.t0)),
			obs.markers.iter().map(|(i, t)| (*i, rel(*t, obs.t0))).collect::<Vec<_>>(),
			lines.iter().map(|l| rel_line(l, obs.t0)).collect::<Vec<_>>().join("\n")
		)
	};
	// what the helper itself reports
	let sig_line = lines.iter().find(|l| l.len() >= 4 && l[0] == "signal" && l[1] == obs.pid.to_string());
	let end_line = lines.iter().find(|l| l.len() >= 3 && l[0] == "end" && l[1] == obs.pid.to_string());
	let self_exit_abs = c.helper.self_exit_ms.map(|ms| obs.start_ns + u64::from(ms) * 1_000_000);
	// when does the helper end by its own doing, at the earliest, if left alone (relative to t0)?
	let voluntary_ns: Option<u64> = {
		let by_signal = match c.helper.react % 3 {
			0 => Some(obs.t0),
			1 => None,
			_ => Some(obs.t0 + u64::from(c.helper.delay_ms) * 1_000_000),
		};
		match (by_signal, self_exit_abs) {
			(Some(a), Some(b)) => Some(a.min(b)),
			(a, b) => a.or(b),
		}
	};
	let own_exit_before_t0 = self_exit_abs.map_or(false, |x| x <= obs.t0 + 30_000_000);
	if own_exit_before_t0 {
		// the process was (nearly) gone when the control arrived: not the scenario of this leg
		o.label("exited-before-control");
		return o;
	}
	let ends_within_grace = voluntary_ns.map_or(false, |v| v + 50_000_000 < obs.t0 + grace_ns);
	let outlives_grace = voluntary_ns.map_or(true, |v| v > obs.t0 + grace_ns + 50_000_000);
	o.label(if ends_within_grace {
		"ends-within-grace"
	} else if outlives_grace {
		"outlives-grace"
	} else {
		"near-deadline"
	});
	o.nontrivial = c.grace_ms > 0;
	// 1. never force-killed before the grace period has elapsed
	if outlives_grace {
		if let Some(fd) = obs.first_dead {
			if fd < obs.t0 + grace_ns {
				o.fail(
					"real:killed-before-grace",
					format!("the process was seen dead {:.1} ms after the control was sent, grace {} ms, and it does not end by itself before that{}", rel(fd, obs.t0), c.grace_ms, dump()),
				);
				return o;
			}
		}
	}
	if ends_within_grace && end_line.is_none() {
		o.fail(
			"real:killed-before-grace",
			format!("the process ends by itself within the grace period but never logged its own end: it was killed{}", dump()),
		);
		return o;
	}
	// 2. force-killed and reaped at expiry
	match obs.first_dead {
		None => {
			o.fail("real:not-killed-at-expiry", format!("the process is still alive 4 s after the grace period{}", dump()));
			return o;
		}
		Some(_) => {
			let bound = obs.t0 + grace_ns.min(voluntary_ns.map_or(u64::MAX, |v| v.saturating_sub(obs.t0))) + SLACK_NS;
			if obs.last_alive > bound {
				o.fail(
					"real:not-killed-at-expiry",
					format!("the process was still alive {:.1} ms after the control, later than min(grace, own end) + 1.5 s{}", rel(obs.last_alive, obs.t0), dump()),
				);
				return o;
			}
		}
	}
	// 3. the requested signal first and at once (observable when the process lives long enough to log it)
	if c.grace_ms >= 150 && voluntary_ns.map_or(true, |v| v >= obs.t0) {
		match sig_line {
			None => {
				o.fail("real:signal-not-delivered", format!("the helper never logged a signal although it had {} ms of grace{}", c.grace_ms, dump()));
				return o;
			}
			Some(l) => {
				let n: i32 = l[3].parse().unwrap_or(-1);
				let t: u64 = l[2].parse().unwrap_or(0);
				if n != signum {
					o.fail("real:wrong-signal", format!("the helper got signal {n} first, requested {signum}{}", dump()));
					return o;
				}
				if t > obs.t0 + SLACK_NS {
					o.fail("real:signal-late", format!("the signal arrived {:.1} ms after the control{}", rel(t, obs.t0), dump()));
					return o;
				}
			}
		}
	}
	// 4. normal-priority followers are held back until the process has ended
	for (i, t) in &obs.markers {
		if obs.last_alive > *t {
			o.fail(
				"real:follower-ran-while-process-alive",
				format!("marker {i} ran {:.1} ms after the control, the process was still alive at {:.1} ms{}", rel(*t, obs.t0), rel(obs.last_alive, obs.t0), dump()),
			);
			return o;
		}
	}
	if obs.markers.len() != c.followers.len() {
		o.fail("real:follower-lost", format!("{} of {} markers ran{}", obs.markers.len(), c.followers.len(), dump()));
		return o;
	}
	// 5. replacement: exactly once for restarts, never for a stop, and not while the old process lives
	let st = starts(&logs);
	let want = if c.kind % 3 == 0 { 1 } else { 2 };
	if st.len() != want {
		o.fail(
			if st.len() > want { "real:replacement-started-more-than-once" } else { "real:replacement-missing" },
			format!("{} helper starts in the log, expected {want}{}", st.len(), dump()),
		);
		return o;
	}
	if !obs.unreaped.is_empty() {
		o.fail("real:replacement-before-reap", format!("right before a spawn the spawn hook found an earlier process of the job still in the process table: {:?}{}", obs.unreaped, dump()));
		return o;
	}
	if lines.iter().any(|l| l.first().map(String::as_str) == Some("UNREAPED")) {
		o.fail("real:replacement-before-reap", format!("the replacement found the old process still in the process table (running or zombie){}", dump()));
		return o;
	}
	if lines.iter().any(|l| l.first().map(String::as_str) == Some("OVERLAP")) {
		o.fail("real:replacement-overlaps", format!("the replacement could not take the lock: the old process still held it{}", dump()));
		return o;
	}
	// 6. the ticket resolves, and not while the old process lives
	match obs.ticket_ns {
		None => {
			o.fail("real:ticket-never-resolves", format!("ticket still pending 3 s after the process ended{}", dump()));
		}
		Some(t) if obs.last_alive > t => {
			o.fail("real:ticket-early", format!("ticket resolved {:.1} ms after the control, process alive at {:.1} ms{}", rel(t, obs.t0), rel(obs.last_alive, obs.t0), dump()));
		}
		_ => {}
	}
	o
}

// ---------------------------------------------------------------------------------------------
// C06 through the library's graceful quit: every running job gets a graceful stop

#[derive(Clone, Debug, Serialize, Deserialize)]
pub struct QuitCase {
	pub helpers: Vec<Helper>,
	/// the quit is requested in the same action that created and started the jobs
	pub same_action: bool,
	pub sig: u8,
	pub grace_ms: u16,
}

pub fn quit_strategy() -> BoxedStrategy<QuitCase> {
	let h = (0u8..3, 0u8..3, prop_oneof![Just(20u16), Just(150), Just(900)]).prop_map(|(wrap, react, delay_ms)| Helper { wrap, react, delay_ms, self_exit_ms: None });
	(proptest::collection::vec(h, 1..4), any::<bool>(), 0u8..6, prop_oneof![Just(600u16), Just(1000)])
		.prop_map(|(helpers, same_action, sig, grace_ms)| QuitCase { helpers, same_action, sig, grace_ms })
		.boxed()
}

pub fn run_quit(c: &QuitCase) -> Outcome {
	use watchexec::{Config, Watchexec};
	use watchexec_events::{Event, Priority, Tag};
	let mut o = Outcome::pass();
	o.nontrivial = true;
	o.label(if c.same_action { "quit-in-creating-action" } else { "quit-in-later-action" });
	let n = c.helpers.len();
	let logs_all: Vec<Logs> = (0..n).map(|_| Logs::new("vh-c06q-")).collect();
	let (sig, signum) = SIGS[usize::from(c.sig) % SIGS.len()];
	let grace_ns = u64::from(c.grace_ms) * 1_000_000;
	let rt = tokio::runtime::Builder::new_multi_thread().worker_threads(2).enable_all().build().unwrap();
	let t_quit = Arc::new(AtomicU64::new(0));
	let cmds: Vec<Arc<Command>> = c.helpers.iter().zip(logs_all.iter()).map(|(h, l)| command(h, l)).collect();
	let log_paths: Vec<std::path::PathBuf> = logs_all.iter().map(Logs::log).collect();
	let res: Result<(Vec<(i32, u64, Option<u64>)>, bool), String> = rt.block_on(async {
		let config = Config::default();
		config.throttle(Duration::from_millis(0));
		let same_action = c.same_action;
		let g = Duration::from_millis(u64::from(c.grace_ms));
		let t_quit2 = t_quit.clone();
		let cmds2 = cmds.clone();
		let log_paths2 = log_paths.clone();
		config.on_action_async(move |mut action| {
			let cmds = cmds2.clone();
			let t_quit = t_quit2.clone();
			let log_paths = log_paths2.clone();
			Box::new(async move {
				let phase = action.events.iter().find_map(crate::wxrun::id_of).unwrap_or(0);
				if phase == 1 {
					for cmd in &cmds {
						let (_, job) = action.create_job(cmd.clone());
						job.start();
					}
				}
				if (phase == 1 && same_action) || phase == 2 {
					// wait until every helper has reported in (bounded)
					let until = mono_ns() + 8_000_000_000;
					while mono_ns() < until && !log_paths.iter().all(|p| std::fs::read_to_string(p).map_or(false, |t| t.lines().any(|l| l.starts_with("start ")))) {
						tokio::time::sleep(Duration::from_millis(3)).await;
					}
					tokio::time::sleep(Duration::from_millis(30)).await;
					t_quit.store(mono_ns(), Ordering::SeqCst);
					action.quit_gracefully(sig, g);
				}
				action
			})
		});
		let wx = Watchexec::with_config(config).map_err(|e| e.to_string())?;
		let mut main = wx.main();
		let ev = |k: u32| Event { tags: vec![Tag::Process(k)], metadata: Default::default() };
		wx.send_event(ev(1), Priority::Normal).await.map_err(|e| e.to_string())?;
		if !c.same_action {
			tokio::time::sleep(Duration::from_millis(20)).await;
			wx.send_event(ev(2), Priority::Normal).await.map_err(|e| e.to_string())?;
		}
		// pollers start as soon as the pids are known
		let until = mono_ns() + 9_000_000_000;
		while mono_ns() < until && !logs_all.iter().all(|l| !starts(l).is_empty()) {
			tokio::time::sleep(Duration::from_millis(2)).await;
		}
		if !logs_all.iter().all(|l| !starts(l).is_empty()) {
			main.abort();
			return Err("env".into());
		}
		let pollers: Vec<(i32, Poller)> = logs_all.iter().map(|l| starts(l)[0].0).map(|pid| (pid, Poller::new(pid))).collect();
		let finished = tokio::time::timeout(Duration::from_millis(u64::from(c.grace_ms) + 9_000), &mut main).await.is_ok();
		if !finished {
			main.abort();
		}
		tokio::time::sleep(Duration::from_millis(150)).await;
		Ok((pollers.into_iter().map(|(pid, p)| { let (la, fd) = p.finish(); (pid, la, fd) }).collect(), finished))
	});
	drop(rt);
	let all_lines: Vec<Vec<Vec<String>>> = logs_all.iter().map(Logs::lines).collect();
	for l in &logs_all {
		kill_all(&l.pids());
	}
	let (obs, finished) = match res {
		Ok(x) => x,
		Err(_) => {
			o.fail("env:helper-not-started", format!("a helper did not report in within 9 s\ncase {c:?}"));
			return o;
		}
	};
	let tq = t_quit.load(Ordering::SeqCst);
	let dump = || {
		let mut s = format!("\ncase {c:?}\nquit requested at t0; per job (pid, last seen alive, first seen dead) in ms after t0: {:?}; main finished: {finished}", obs.iter().map(|(p, la, fd)| (*p, rel(*la, tq), fd.map(|x| rel(x, tq)))).collect::<Vec<_>>());
		for (i, lines) in all_lines.iter().enumerate() {
			s.push_str(&format!("\njob {i} helper log:\n{}", lines.iter().map(|l| rel_line(l, tq)).collect::<Vec<_>>().join("\n")));
		}
		s
	};
	if tq == 0 {
		o.fail("harness:quit-not-requested", format!("the handler never reached the quit{}", dump()));
		return o;
	}
	if !finished {
		o.fail("real-quit:main-did-not-finish", format!("main still running 9 s after the grace period{}", dump()));
		return o;
	}
	for (i, h) in c.helpers.iter().enumerate() {
		let (pid, last_alive, first_dead) = obs[i];
		let lines = &all_lines[i];
		let sig_line = lines.iter().find(|l| l.len() >= 4 && l[0] == "signal" && l[1] == pid.to_string());
		let end_line = lines.iter().any(|l| l.len() >= 3 && l[0] == "end" && l[1] == pid.to_string());
		let voluntary: Option<u64> = match h.react % 3 {
			0 => Some(tq),
			1 => None,
			_ => Some(tq + u64::from(h.delay_ms) * 1_000_000),
		};
		let ends_within = voluntary.map_or(false, |v| v + 80_000_000 < tq + grace_ns);
		let outlives = voluntary.map_or(true, |v| v > tq + grace_ns + 80_000_000);
		// the requested signal, at once
		match sig_line {
			None => {
				o.fail("real-quit:signal-not-delivered", format!("job {i}: the helper never logged a signal{}", dump()));
				return o;
			}
			Some(l) => {
				let got: i32 = l[3].parse().unwrap_or(-1);
				let at: u64 = l[2].parse().unwrap_or(0);
				if got != signum {
					o.fail("real-quit:wrong-signal", format!("job {i}: first signal {got}, requested {signum}{}", dump()));
					return o;
				}
				// every job is signalled when the quit is handled, not one after the other: well within half a second
				if at > tq + 500_000_000 {
					o.fail("real-quit:signal-late", format!("job {i}: the signal arrived {:.1} ms after the quit was requested{}", rel(at, tq), dump()));
					return o;
				}
			}
		}
		// no kill before the grace period is over
		if outlives {
			if let Some(fd) = first_dead {
				if fd < tq + grace_ns {
					o.fail("real-quit:killed-before-grace", format!("job {i}: seen dead {:.1} ms after the quit, grace {} ms{}", rel(fd, tq), c.grace_ms, dump()));
					return o;
				}
			}
		}
		if ends_within && !end_line {
			o.fail("real-quit:killed-before-grace", format!("job {i}: the helper ends by itself within the grace period but never logged its own end{}", dump()));
			return o;
		}
		// killed at expiry
		let bound = tq + grace_ns.min(voluntary.map_or(u64::MAX, |v| v - tq)) + SLACK_NS;
		if first_dead.is_none() || last_alive > bound {
			o.fail("real-quit:not-killed-at-expiry", format!("job {i}: still alive {:.1} ms after the quit{}", rel(last_alive, tq), dump()));
			return o;
		}
	}
	o
}

// ---------------------------------------------------------------------------------------------
// C06: a graceful quit that arrives while the job is still busy with something that must finish
// first: an earlier graceful stop / restart whose (longer) grace period is running, or a long hook.

#[derive(Clone, Debug, Serialize, Deserialize)]
pub struct QuitBusyCase {
	pub helpers: Vec<Helper>,
	/// 0 an earlier stop_with_signal, 1 an earlier restart_with_signal, 2 a run_async hook that sleeps
	pub pre: u8,
	pub pre_sig: u8,
	/// grace of the earlier stop / length of the hook
	pub pre_ms: u16,
	/// the quit follows this long after the earlier control
	pub gap_ms: u16,
	pub quit_sig: u8,
	pub quit_grace_ms: u16,
}

pub fn quit_busy_strategy() -> BoxedStrategy<QuitBusyCase> {
	let h = (0u8..3, prop_oneof![3 => Just(1u8), 1 => Just(2u8)]).prop_map(|(wrap, react)| Helper { wrap, react, delay_ms: 700, self_exit_ms: None });
	(proptest::collection::vec(h, 1..3), 0u8..3, 0u8..6, prop_oneof![Just(2200u16), Just(2700)], prop_oneof![Just(40u16), Just(150), Just(300)], 0u8..6, prop_oneof![Just(0u16), Just(100), Just(500)])
		.prop_map(|(helpers, pre, pre_sig, pre_ms, gap_ms, quit_sig, quit_grace_ms)| QuitBusyCase {
			helpers,
			pre,
			pre_sig,
			pre_ms,
			gap_ms,
			// two different signals so that the log tells which control a signal came from
			quit_sig: if quit_sig % 6 == pre_sig % 6 { quit_sig + 1 } else { quit_sig },
			quit_grace_ms,
		})
		.boxed()
}

pub fn run_quit_busy(c: &QuitBusyCase) -> Outcome {
	use watchexec::{Config, Watchexec};
	use watchexec_events::{Event, Priority, Tag};
	let mut o = Outcome::pass();
	o.nontrivial = true;
	let pre = c.pre % 3;
	o.label(["quit-during-stop-grace", "quit-during-restart-grace", "quit-during-long-hook"][pre as usize]);
	let n = c.helpers.len();
	let logs_all: Vec<Logs> = (0..n).map(|_| Logs::new("vh-c06b-")).collect();
	let (pre_sig, pre_signum) = SIGS[usize::from(c.pre_sig) % SIGS.len()];
	let (quit_sig, quit_signum) = SIGS[usize::from(c.quit_sig) % SIGS.len()];
	let pre_ns = u64::from(c.pre_ms) * 1_000_000;
	let quit_grace_ns = u64::from(c.quit_grace_ms) * 1_000_000;
	let rt = tokio::runtime::Builder::new_multi_thread().worker_threads(2).enable_all().build().unwrap();
	let t_pre = Arc::new(AtomicU64::new(0));
	let t_quit = Arc::new(AtomicU64::new(0));
	let cmds: Vec<Arc<Command>> = c.helpers.iter().zip(logs_all.iter()).map(|(h, l)| command(h, l)).collect();
	let jobs: Arc<Mutex<Vec<Job>>> = Arc::new(Mutex::new(Vec::new()));
	let res: Result<(Vec<(i32, u64, Option<u64>)>, bool), String> = rt.block_on(async {
		let config = Config::default();
		config.throttle(Duration::from_millis(0));
		let (t_pre2, t_quit2, cmds2, jobs2) = (t_pre.clone(), t_quit.clone(), cmds.clone(), jobs.clone());
		let pre_d = Duration::from_millis(u64::from(c.pre_ms));
		let g = Duration::from_millis(u64::from(c.quit_grace_ms));
		config.on_action(move |mut action| {
			let phase = action.events.iter().find_map(crate::wxrun::id_of).unwrap_or(0);
			match phase {
				1 => {
					for cmd in &cmds2 {
						let (_, job) = action.create_job(cmd.clone());
						job.start();
						jobs2.lock().unwrap().push(job);
					}
				}
				2 => {
					t_pre2.store(mono_ns(), Ordering::SeqCst);
					for job in jobs2.lock().unwrap().iter() {
						match pre {
							0 => drop(job.stop_with_signal(pre_sig, pre_d)),
							1 => drop(job.restart_with_signal(pre_sig, pre_d)),
							_ => drop(job.run_async(move |_| Box::new(async move { tokio::time::sleep(pre_d).await }))),
						}
					}
				}
				3 => {
					t_quit2.store(mono_ns(), Ordering::SeqCst);
					action.quit_gracefully(quit_sig, g);
				}
				_ => {}
			}
			action
		});
		let wx = Watchexec::with_config(config).map_err(|e| e.to_string())?;
		let mut main = wx.main();
		let ev = |k: u32| Event { tags: vec![Tag::Process(k)], metadata: Default::default() };
		wx.send_event(ev(1), Priority::Normal).await.map_err(|e| e.to_string())?;
		let until = mono_ns() + 9_000_000_000;
		while mono_ns() < until && !logs_all.iter().all(|l| !starts(l).is_empty()) {
			tokio::time::sleep(Duration::from_millis(2)).await;
		}
		if !logs_all.iter().all(|l| !starts(l).is_empty()) {
			main.abort();
			return Err("env".into());
		}
		let pollers: Vec<(i32, Poller)> = logs_all.iter().map(|l| starts(l)[0].0).map(|pid| (pid, Poller::new(pid))).collect();
		tokio::time::sleep(Duration::from_millis(30)).await;
		wx.send_event(ev(2), Priority::Normal).await.map_err(|e| e.to_string())?;
		tokio::time::sleep(Duration::from_millis(u64::from(c.gap_ms))).await;
		wx.send_event(ev(3), Priority::Normal).await.map_err(|e| e.to_string())?;
		let finished = tokio::time::timeout(Duration::from_millis(u64::from(c.pre_ms) + u64::from(c.quit_grace_ms) + 9_000), &mut main).await.is_ok();
		if !finished {
			main.abort();
		}
		tokio::time::sleep(Duration::from_millis(150)).await;
		Ok((pollers.into_iter().map(|(pid, p)| { let (la, fd) = p.finish(); (pid, la, fd) }).collect(), finished))
	});
	drop(rt);
	jobs.lock().unwrap().clear();
	let all_lines: Vec<Vec<Vec<String>>> = logs_all.iter().map(Logs::lines).collect();
	for l in &logs_all {
		kill_all(&l.pids());
	}
	let (obs, finished) = match res {
		Ok(x) => x,
		Err(_) => {
			o.fail("env:helper-not-started", format!("a helper did not report in within 9 s\ncase {c:?}"));
			return o;
		}
	};
	let (tp, tq) = (t_pre.load(Ordering::SeqCst), t_quit.load(Ordering::SeqCst));
	let dump = || {
		let mut s = format!("\ncase {c:?}\nearlier control at t0, quit requested at {:+.1} ms; per job (pid, last seen alive, first seen dead) in ms after t0: {:?}; main finished: {finished}", rel(tq, tp), obs.iter().map(|(p, la, fd)| (*p, rel(*la, tp), fd.map(|x| rel(x, tp)))).collect::<Vec<_>>());
		for (i, lines) in all_lines.iter().enumerate() {
			s.push_str(&format!("\njob {i} helper log:\n{}", lines.iter().map(|l| rel_line(l, tp)).collect::<Vec<_>>().join("\n")));
		}
		s
	};
	if tp == 0 || tq == 0 {
		o.fail("harness:quit-not-requested", format!("the handler never reached the earlier control or the quit{}", dump()));
		return o;
	}
	if !finished {
		o.fail("quit-busy:main-did-not-finish", format!("main still running 9 s after both grace periods{}", dump()));
		return o;
	}
	for (i, h) in c.helpers.iter().enumerate() {
		let (pid, last_alive, first_dead) = obs[i];
		let lines = &all_lines[i];
		let sigs: Vec<(u64, i32)> = lines.iter().filter(|l| l.len() >= 4 && l[0] == "signal" && l[1] == pid.to_string()).filter_map(|l| Some((l[2].parse().ok()?, l[3].parse().ok()?))).collect();
		let end_line = lines.iter().any(|l| l.len() >= 3 && l[0] == "end" && l[1] == pid.to_string());
		let ignores = h.react % 3 == 1;
		if pre < 2 {
			// the first process is in the grace period of the earlier stop: that period must run its full
			// length whatever the quit asks for (the quit's own stop waits behind it)
			match sigs.first() {
				Some((_, s)) if *s == pre_signum => {}
				other => {
					o.fail("quit-busy:earlier-stop-signal-missing", format!("job {i}: first signal {other:?}, the earlier graceful control sent {pre_signum}{}", dump()));
					return o;
				}
			}
			if ignores {
				if let Some(fd) = first_dead {
					if fd < tp + pre_ns {
						o.fail("quit-busy:killed-before-grace", format!("job {i}: seen dead {:.1} ms after a graceful stop with a grace period of {} ms (a quit with {} ms followed){}", rel(fd, tp), c.pre_ms, c.quit_grace_ms, dump()));
						return o;
					}
				}
				if first_dead.is_none() || last_alive > tq.max(tp + pre_ns) + quit_grace_ns + SLACK_NS {
					o.fail("quit-busy:not-killed-at-expiry", format!("job {i}: still alive {:.1} ms after the earlier stop{}", rel(last_alive, tp), dump()));
					return o;
				}
			} else if !end_line {
				// exits by itself 700 ms after the first signal, well inside the earlier grace period
				o.fail("quit-busy:killed-before-grace", format!("job {i}: the helper ends by itself within the grace period but never logged its own end{}", dump()));
				return o;
			}
		} else {
			// the job is busy in a hook: the quit's graceful stop is handled when the hook is done, and is a
			// graceful stop all the same - the signal first, the kill not before the grace period is over
			// (both kinds of helper outlive the quit's grace period: the slow one needs 700 ms after the signal)
			let _ = (ignores, end_line);
			let Some((at, s)) = sigs.first().copied() else {
				if c.quit_grace_ms == 0 {
					// signal and kill come together: the helper may die before it has logged the signal
					if first_dead.is_none() {
						o.fail("quit-busy:not-killed-at-expiry", format!("job {i}: still alive after main ended{}", dump()));
						return o;
					}
					continue;
				}
				o.fail("quit-busy:signal-not-delivered", format!("job {i}: the helper never logged a signal{}", dump()));
				return o;
			};
			if s != quit_signum {
				o.fail("quit-busy:wrong-signal", format!("job {i}: first signal {s}, the quit asked for {quit_signum}{}", dump()));
				return o;
			}
			// the signal cannot have been sent before the hook was over (the helper logs it on receipt, which under
			// load can be later than the sending: the lower bound is anchored at the earliest possible sending)
			if let Some(fd) = first_dead {
				if fd < tp + pre_ns + quit_grace_ns {
					o.fail("quit-busy:killed-before-grace", format!("job {i}: seen dead {:.1} ms after the hook was queued; the hook takes {} ms and the quit's grace period is {} ms{}", rel(fd, tp), c.pre_ms, c.quit_grace_ms, dump()));
					return o;
				}
			}
			if first_dead.is_none() || last_alive > at + quit_grace_ns + SLACK_NS {
				o.fail("quit-busy:not-killed-at-expiry", format!("job {i}: still alive {:.1} ms after the quit's signal{}", rel(last_alive, at), dump()));
				return o;
			}
		}
	}
	// nothing survives
	for l in &logs_all {
		for (kind, pid) in l.pids() {
			if kind == "start" && alive(pid) {
				o.fail("quit-busy:survivor", format!("process {pid} still alive after main ended{}", dump()));
				return o;
			}
		}
	}
	o
}

fn rel(t: u64, t0: u64) -> f64 {
	(t as f64 - t0 as f64) / 1e6
}

fn rel_line(l: &[String], t0: u64) -> String {
	let mut v = l.to_vec();
	if v.len() >= 3 {
		if let Ok(t) = v[2].parse::<u64>() {
			v[2] = format!("{:+.1}ms", rel(t, t0));
		}
	}
	v.truncate(5);
	format!("    {}", v.join(" "))
}

// ---------------------------------------------------------------------------------------------
// C04: control sequences on real processes, flock witness

#[derive(Clone, Debug, PartialEq, Serialize, Deserialize)]
pub enum ROp {
	Start,
	Stop,
	StopSig(u8, u16),
	Restart,
	RestartSig(u8, u16),
	TryRestart,
	TryRestartSig(u8, u16),
	Signal(u8),
	/// `job.control(Control::ContinueTryGracefulRestart)`: public, documented as internal
	RawContinue,
}

#[derive(Clone, Debug, Serialize, Deserialize)]
pub struct SeqCase {
	pub helper: Helper,
	pub steps: Vec<(u16, ROp)>,
	pub senders: u8,
}

pub fn seq_strategy() -> BoxedStrategy<SeqCase> {
	let g = prop_oneof![Just(0u16), Just(5), Just(40), Just(120)];
	let s = 0u8..6;
	let op = prop_oneof![
		5 => Just(ROp::Start),
		2 => Just(ROp::Stop),
		3 => (s.clone(), g.clone()).prop_map(|(a, b)| ROp::StopSig(a, b)),
		4 => Just(ROp::Restart),
		4 => (s.clone(), g.clone()).prop_map(|(a, b)| ROp::RestartSig(a, b)),
		4 => Just(ROp::TryRestart),
		4 => (s.clone(), g.clone()).prop_map(|(a, b)| ROp::TryRestartSig(a, b)),
		2 => s.prop_map(ROp::Signal),
		1 => Just(ROp::RawContinue),
	];
	let gap = prop_oneof![4 => Just(0u16), 2 => Just(3), 2 => Just(15), 1 => Just(60), 1 => Just(130)];
	(
		(0u8..3, 0u8..3, prop_oneof![Just(0u16), Just(10), Just(50), Just(150)], prop_oneof![2 => Just(None), 1 => prop_oneof![Just(5u16), Just(40), Just(100)].prop_map(Some)]),
		proptest::collection::vec((gap, op), 3..14),
		1u8..4,
	)
		.prop_map(|((wrap, react, delay_ms, self_exit_ms), steps, senders)| SeqCase {
			helper: Helper { wrap, react, delay_ms, self_exit_ms },
			steps,
			senders,
		})
		.boxed()
}

fn send_rop(job: &Job, op: &ROp) {
	let sg = |i: u8| SIGS[usize::from(i) % SIGS.len()].0;
	let ms = |m: u16| Duration::from_millis(u64::from(m));
	// tickets are dropped: the C07 legs are about them
	match op {
		ROp::Start => drop(job.start()),
		ROp::Stop => drop(job.stop()),
		ROp::StopSig(s, g) => drop(job.stop_with_signal(sg(*s), ms(*g))),
		ROp::Restart => drop(job.restart()),
		ROp::RestartSig(s, g) => drop(job.restart_with_signal(sg(*s), ms(*g))),
		ROp::TryRestart => drop(job.try_restart()),
		ROp::TryRestartSig(s, g) => drop(job.try_restart_with_signal(sg(*s), ms(*g))),
		ROp::Signal(s) => drop(job.signal(sg(*s))),
		ROp::RawContinue => drop(job.control(watchexec_supervisor::job::Control::ContinueTryGracefulRestart)),
	}
}

pub fn run_seq(c: &SeqCase) -> Outcome {
	let mut o = Outcome::pass();
	let logs = Logs::new("vh-c04-");
	let rt = tokio::runtime::Builder::new_multi_thread().worker_threads(3).enable_all().build().unwrap();
	let unreaped: Vec<String> = rt.block_on(async {
		let (job, task) = start_job(command(&c.helper, &logs));
		let probe = install_reap_probe(&job, &logs);
		let senders = usize::from(c.senders.clamp(1, 3));
		let mut hs = Vec::new();
		for sidx in 0..senders {
			let job = job.clone();
			let steps: Vec<(u16, ROp)> = c.steps.iter().cloned().enumerate().filter(|(i, _)| i % senders == sidx).map(|(_, s)| s).collect();
			hs.push(tokio::spawn(async move {
				for (gap, op) in steps {
					if gap > 0 {
						tokio::time::sleep(Duration::from_millis(u64::from(gap))).await;
					}
					send_rop(&job, &op);
				}
			}));
		}
		for h in hs {
			let _ = h.await;
		}
		// let the last control take effect (a spawn takes a few ms), then end the job
		job.run(|_| {}).await;
		tokio::time::sleep(Duration::from_millis(150)).await;
		job.delete_now().await;
		let _ = tokio::time::timeout(Duration::from_secs(3), task).await;
		let hits = probe.lock().unwrap().clone();
		hits
	});
	drop(rt);
	std::thread::sleep(Duration::from_millis(30));
	let lines = logs.lines();
	kill_all(&logs.pids());
	let st = starts(&logs);
	if st.len() >= 2 {
		o.label("2+spawns");
	}
	if st.len() >= 4 {
		o.label("4+spawns");
	}
	o.nontrivial = st.len() >= 2;
	let dump = || {
		let t0 = st.first().map_or(0, |x| x.1);
		format!("\ncase {c:?}\nhelper log (ms relative to the first start):\n{}", lines.iter().map(|l| rel_line(l, t0)).collect::<Vec<_>>().join("\n"))
	};
	if lines.iter().any(|l| l.first().map(String::as_str) == Some("OVERLAP")) {
		o.fail("real:overlap", format!("a helper found the job's lock held by an earlier process of the same job{}", dump()));
		return o;
	}
	if !unreaped.is_empty() {
		o.fail("real:previous-not-reaped", format!("right before a spawn the spawn hook found an earlier process of the job still in the process table (its exit status had not been collected): {unreaped:?}{}", dump()));
		return o;
	}
	if lines.iter().any(|l| l.first().map(String::as_str) == Some("UNREAPED")) {
		o.fail("real:previous-not-reaped", format!("a helper found the previous process of the same job still in the process table (running or zombie): its exit status had not been collected when the new one was spawned{}", dump()));
		return o;
	}
	// helpers that logged their own end give exact life spans: no start may fall inside one
	for l in lines.iter().filter(|l| l.len() >= 3 && l[0] == "end") {
		let pid: i32 = l[1].parse().unwrap_or(0);
		let end: u64 = l[2].parse().unwrap_or(0);
		let Some((_, s0)) = st.iter().find(|(p, _)| *p == pid) else { continue };
		if let Some((p2, s2)) = st.iter().find(|(p, s)| *p != pid && *s > *s0 && *s < end) {
			o.fail("real:overlap", format!("helper {p2} started at {s2} inside the life span [{s0}, {end}] of helper {pid}{}", dump()));
			return o;
		}
	}
	o
}
