//! C17 — path summaries handed to commands are faithful.

use std::{
	collections::{BTreeMap, BTreeSet, HashMap},
	ffi::OsString,
	path::{Component, Path, PathBuf},
};

use proptest::prelude::*;
use serde::{Deserialize, Serialize};
use watchexec::paths::summarise_events_to_env;
use watchexec_events::{Event, FileType, Tag};

use super::c16::all_kinds;
use crate::engine::{Engine, LegOpts, Outcome};

#[derive(Clone, Debug, Serialize, Deserialize)]
pub struct PathSpec {
	pub path: String,
	/// 0 none, 1 file, 2 dir
	pub ft: u8,
}

#[derive(Clone, Debug, Serialize, Deserialize)]
pub struct EvSpec {
	pub paths: Vec<PathSpec>,
	/// indices into c16::all_kinds()
	pub kinds: Vec<u16>,
	/// add unrelated tags (source, process) too
	pub noise: bool,
}

#[derive(Clone, Debug, Serialize, Deserialize)]
pub struct Batch {
	pub events: Vec<EvSpec>,
}

/// Variables a kind may legitimately land in: one entry = fixed by the docs, two = the docs
/// ("modified" / "every other kind") do not settle it.
fn buckets_of(full: &str) -> &'static [&'static str] {
	if full.starts_with("Create(") {
		&["CREATED"]
	} else if full.starts_with("Remove(") {
		&["REMOVED"]
	} else if full.starts_with("Modify(Name(") {
		&["RENAMED"]
	} else if full.starts_with("Modify(Metadata(") {
		&["META_CHANGED"]
	} else if full.starts_with("Modify(Data(") {
		&["WRITTEN"]
	} else if full == "Access(Close(Write))" || full == "Modify(Any)" || full == "Modify(Other)" {
		&["WRITTEN", "OTHERWISE_CHANGED"]
	} else {
		&["OTHERWISE_CHANGED"]
	}
}

/// Case strings carry bytes that are not valid UTF-8 as private-use characters U+E080..=U+E0FF (one byte
/// 0x80..=0xFF each), so that cases stay serialisable; this turns them into the real path.
pub fn os_path(s: &str) -> PathBuf {
	use std::os::unix::ffi::OsStringExt;
	let mut bytes = Vec::with_capacity(s.len());
	for ch in s.chars() {
		let c = ch as u32;
		if (0xE080..=0xE0FF).contains(&c) {
			bytes.push((c - 0xE000) as u8);
		} else {
			let mut buf = [0u8; 4];
			bytes.extend_from_slice(ch.encode_utf8(&mut buf).as_bytes());
		}
	}
	PathBuf::from(OsString::from_vec(bytes))
}

fn comps(p: &Path) -> Vec<Component<'_>> {
	p.components().collect()
}

fn same_path(a: &Path, b: &Path) -> bool {
	comps(a) == comps(b)
}

fn build(b: &Batch) -> Vec<Event> {
	let kinds = all_kinds();
	b.events
		.iter()
		.map(|e| {
			let mut tags = Vec::new();
			if e.noise {
				tags.push(Tag::Source(watchexec_events::Source::Filesystem));
			}
			// interleave: first kind, paths, remaining kinds (tag order must not matter)
			let mut ks = e.kinds.iter();
			if let Some(k) = ks.next() {
				tags.push(Tag::FileEventKind(kinds[*k as usize % kinds.len()].0));
			}
			for p in &e.paths {
				tags.push(Tag::Path {
					path: os_path(&p.path),
					file_type: match p.ft % 3 {
						1 => Some(FileType::File),
						2 => Some(FileType::Dir),
						_ => None,
					},
				});
			}
			for k in ks {
				tags.push(Tag::FileEventKind(kinds[*k as usize % kinds.len()].0));
			}
			if e.noise {
				tags.push(Tag::Process(42));
			}
			Event { tags, metadata: Default::default() }
		})
		.collect()
}

fn ref_common(trunks: &[PathBuf]) -> Option<PathBuf> {
	let mut it = trunks.iter();
	let first = it.next()?;
	let mut pre: Vec<Component<'_>> = comps(first);
	for t in it {
		let c = comps(t);
		let n = pre.iter().zip(c.iter()).take_while(|(a, b)| a == b).count();
		pre.truncate(n);
	}
	if pre.is_empty() {
		None
	} else {
		let mut p = PathBuf::new();
		for c in pre {
			p.push(c.as_os_str());
		}
		Some(p)
	}
}

pub fn run(b: &Batch) -> Outcome {
	let mut o = Outcome::pass();
	let kinds = all_kinds();
	let events = build(b);
	let res: HashMap<&'static str, OsString> = summarise_events_to_env(events.iter());
	let distinct_paths: BTreeSet<&str> = b.events.iter().flat_map(|e| e.paths.iter().map(|p| p.path.as_str())).collect();
	let distinct_kinds: BTreeSet<u16> = b.events.iter().flat_map(|e| e.kinds.iter().copied()).collect();
	o.nontrivial = b.events.len() >= 2 && distinct_paths.len() >= 2 && distinct_kinds.len() >= 2;
	if b.events.iter().any(|e| e.paths.is_empty()) {
		o.label("event-without-path");
	}
	if b.events.iter().any(|e| e.kinds.is_empty() && !e.paths.is_empty()) {
		o.label("pathed-event-without-kind");
	}
	if b.events.iter().any(|e| e.kinds.len() >= 2) {
		o.label("multi-kind-event");
	}
	let dump = || format!("\nbatch: {b:?}\nresult: {res:?}");

	let common: Option<PathBuf> = res.get("COMMON").map(PathBuf::from);
	// entries are compared as bytes: paths need not be UTF-8
	let vars: BTreeMap<&str, Vec<Vec<u8>>> = res
		.iter()
		.filter(|(k, _)| **k != "COMMON")
		.map(|(k, v)| {
			use std::os::unix::ffi::OsStrExt;
			(*k, v.as_os_str().as_bytes().split(|b| *b == b':').map(<[u8]>::to_vec).collect::<Vec<_>>())
		})
		.collect();
	for k in vars.keys() {
		if !["CREATED", "REMOVED", "RENAMED", "WRITTEN", "META_CHANGED", "OTHERWISE_CHANGED"].contains(k) {
			o.fail("unknown-variable", format!("unexpected variable {k}{}", dump()));
			return o;
		}
	}
	let full = |x: &[u8]| -> PathBuf {
		use std::os::unix::ffi::OsStrExt;
		let x = std::ffi::OsStr::from_bytes(x);
		match &common {
			Some(c) => c.join(x),
			None => PathBuf::from(x),
		}
	};
	// sorted + deduplicated
	for (k, entries) in &vars {
		if entries.windows(2).any(|w| w[0] >= w[1]) {
			o.fail("not-sorted-or-duplicated", format!("{k} entries are not strictly increasing bytewise: {:?}{}", entries.iter().map(|e| String::from_utf8_lossy(e).into_owned()).collect::<Vec<_>>(), dump()));
			return o;
		}
	}
	// every (path, kind) pair is present in (one of) its variable(s)
	let mut allowed: BTreeMap<&str, Vec<PathBuf>> = BTreeMap::new();
	for e in &b.events {
		for k in &e.kinds {
			let name = kinds[*k as usize % kinds.len()].1;
			let bs = buckets_of(name);
			for p in &e.paths {
				let pp = os_path(&p.path);
				let found = bs.iter().any(|bk| vars.get(bk).map_or(false, |es| es.iter().any(|x| same_path(&full(x), &pp))));
				if !found {
					o.fail(
						"path-missing-from-its-variable",
						format!("path {:?} of an event of kind {name} is not reconstructible from {bs:?} (common {common:?}){}", p.path, dump()),
					);
					return o;
				}
				for bk in bs {
					allowed.entry(bk).or_default().push(pp.clone());
				}
			}
		}
	}
	// nothing invented
	for (k, entries) in &vars {
		for x in entries {
			let f = full(x);
			if !allowed.get(k).map_or(false, |ps| ps.iter().any(|p| same_path(p, &f))) {
				o.fail(
					"entry-not-from-any-event",
					format!("{k} lists {:?} (= {f:?}) but no event of such a kind has that path{}", String::from_utf8_lossy(x), dump()),
				);
				return o;
			}
		}
	}
	// common path
	let all_have_kinds = b.events.iter().all(|e| e.paths.is_empty() || !e.kinds.is_empty());
	let trunks: Vec<PathBuf> = b
		.events
		.iter()
		.flat_map(|e| e.paths.iter())
		.map(|p| {
			let pb = os_path(&p.path);
			if p.ft % 3 == 2 {
				pb
			} else {
				pb.parent().map_or_else(|| pb.clone(), Path::to_path_buf)
			}
		})
		.collect();
	if all_have_kinds {
		let r = ref_common(&trunks);
		let same = match (&r, &common) {
			(Some(a), Some(c)) => same_path(a, c),
			(None, None) => true,
			_ => false,
		};
		if !same {
			o.fail("common-path-not-longest-common-directory", format!("COMMON = {common:?}, longest common directory of {trunks:?} is {r:?}{}", dump()));
			return o;
		}
	}
	if trunks.is_empty() && !res.is_empty() {
		o.fail("entries-without-paths", format!("no event has a path, but the summary is not empty{}", dump()));
	}
	o
}

pub fn name() -> impl Strategy<Value = String> {
	prop_oneof![
		Just("a".to_string()),
		Just("ab".to_string()),
		Just("b".to_string()),
		Just("src".to_string()),
		Just("src2".to_string()),
		Just("x y".to_string()),
		Just("ü".to_string()),
		Just("main.rs".to_string()),
		Just(".hidden".to_string()),
		// not valid UTF-8 on disk: "caf\xe9", "blob-\xff", "blob-\xfe" (see os_path)
		Just("caf\u{e0e9}".to_string()),
		Just("blob-\u{e0ff}".to_string()),
		Just("blob-\u{e0fe}".to_string()),
		"[a-c]{1,2}",
	]
}

fn path() -> impl Strategy<Value = String> {
	(prop_oneof![6 => Just("/r"), 1 => Just("/"), 1 => Just("/other"), 1 => Just("rel"), 1 => Just("")], proptest::collection::vec(name(), 0..5)).prop_map(|(root, comps)| {
		let mut s = root.to_string();
		for c in comps {
			if !s.ends_with('/') && !s.is_empty() {
				s.push('/');
			}
			s.push_str(&c);
		}
		if s.is_empty() {
			"rel2".to_string()
		} else {
			s
		}
	})
}

fn strategy() -> BoxedStrategy<Batch> {
	let n = all_kinds().len() as u16;
	let ev = (
		proptest::collection::vec((path(), 0u8..3).prop_map(|(path, ft)| PathSpec { path, ft }), 0..4),
		prop_oneof![1 => Just(vec![]), 6 => proptest::collection::vec(0..n, 1..3)],
		any::<bool>(),
	)
		.prop_map(|(paths, kinds, noise)| EvSpec { paths, kinds, noise });
	proptest::collection::vec(ev, 0..9).prop_map(|events| Batch { events }).boxed()
}

pub fn check(e: &Engine) {
	e.assume("path names exclude ':' and newline (the format's separators)");
	e.assume("for kinds the docs do not place unambiguously (Modify(Any), Modify(Other), Access(Close(Write))) either WRITTEN or OTHERWISE_CHANGED is accepted");
	e.explore(
		"env-summary",
		LegOpts::det(
			e.tier.pick(60_000, 1_500_000),
			"batches of 0-8 events, 0-3 paths each from a shared-prefix tree (prefix-related names, a path equal to the common directory, duplicates, relative and disjoint roots), 0-2 kinds each, file/dir/unknown; reconstruct-by-join, no invented entries, strict byte order, longest-common-directory; non-trivial = >=2 events, >=2 distinct paths, >=2 kinds",
		),
		&strategy,
		&run,
	);
	super::c17_cli::check(e);
}
