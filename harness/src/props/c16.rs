//! C16 — events survive a JSON round trip and the format is stable.

use std::{
	collections::HashMap,
	num::{NonZeroI32, NonZeroI64},
	path::PathBuf,
};

use proptest::prelude::*;
use serde::{Deserialize, Serialize};
use serde_json::{json, Map, Value};
use watchexec_events::{
	filekind::{AccessKind, AccessMode, CreateKind, DataChange, FileEventKind, MetadataKind, ModifyKind, RemoveKind, RenameMode},
	Event, FileType, Keyboard, ProcessEnd, Source, Tag,
};
use watchexec_signals::Signal;

use crate::engine::{Engine, LegOpts, Outcome};

// ------------------------------------------------------------------ case description (serialisable)

#[derive(Clone, Debug, Serialize, Deserialize, PartialEq)]
pub enum TagSpec {
	Path { path: String, file_type: Option<u8> },
	/// index into `all_kinds()`
	Fs(u16),
	Source(u8),
	Keyboard,
	Process(u32),
	Signal(i32),
	/// `Signal::Custom(n)` constructed directly (also for numbers that have a first-class variant)
	CustomSignal(i32),
	/// completion by `Signal::Custom(n)` constructed directly
	ExitCustomSignal(i32),
	/// first-class signal by index 0..7
	NamedSignal(u8),
	CompletionNone,
	Success,
	Continued,
	ExitError(i64),
	ExitSignal(i32),
	ExitStop(i32),
	Exception(i32),
	Unknown,
}

#[derive(Clone, Debug, Serialize, Deserialize, PartialEq)]
pub struct EventSpec {
	pub tags: Vec<TagSpec>,
	pub metadata: Vec<(String, Vec<String>)>,
}

const SOURCES: &[(Source, &str)] = &[
	(Source::Filesystem, "filesystem"),
	(Source::Keyboard, "keyboard"),
	(Source::Mouse, "mouse"),
	(Source::Os, "os"),
	(Source::Time, "time"),
	(Source::Internal, "internal"),
];
const FILETYPES: &[(FileType, &str)] = &[
	(FileType::File, "file"),
	(FileType::Dir, "dir"),
	(FileType::Symlink, "symlink"),
	(FileType::Other, "other"),
];
const NAMED: &[(Signal, &str)] = &[
	(Signal::Hangup, "SIGHUP"),
	(Signal::ForceStop, "SIGKILL"),
	(Signal::Interrupt, "SIGINT"),
	(Signal::Quit, "SIGQUIT"),
	(Signal::Terminate, "SIGTERM"),
	(Signal::User1, "SIGUSR1"),
	(Signal::User2, "SIGUSR2"),
];

/// Every filesystem event kind with its documented "General(Precise(Specific))" spelling and
/// simple class — the reference table, written out by hand.
pub fn all_kinds() -> Vec<(FileEventKind, &'static str, &'static str)> {
	use FileEventKind as K;
	let mut v: Vec<(K, &'static str, &'static str)> = vec![
		(K::Any, "Any", "other"),
		(K::Other, "Other", "other"),
		(K::Access(AccessKind::Any), "Access(Any)", "access"),
		(K::Access(AccessKind::Read), "Access(Read)", "access"),
		(K::Access(AccessKind::Other), "Access(Other)", "access"),
		(K::Create(CreateKind::Any), "Create(Any)", "create"),
		(K::Create(CreateKind::File), "Create(File)", "create"),
		(K::Create(CreateKind::Folder), "Create(Folder)", "create"),
		(K::Create(CreateKind::Other), "Create(Other)", "create"),
		(K::Modify(ModifyKind::Any), "Modify(Any)", "modify"),
		(K::Modify(ModifyKind::Other), "Modify(Other)", "modify"),
		(K::Modify(ModifyKind::Data(DataChange::Any)), "Modify(Data(Any))", "modify"),
		(K::Modify(ModifyKind::Data(DataChange::Size)), "Modify(Data(Size))", "modify"),
		(K::Modify(ModifyKind::Data(DataChange::Content)), "Modify(Data(Content))", "modify"),
		(K::Modify(ModifyKind::Data(DataChange::Other)), "Modify(Data(Other))", "modify"),
		(K::Modify(ModifyKind::Metadata(MetadataKind::Any)), "Modify(Metadata(Any))", "modify"),
		(K::Modify(ModifyKind::Metadata(MetadataKind::AccessTime)), "Modify(Metadata(AccessTime))", "modify"),
		(K::Modify(ModifyKind::Metadata(MetadataKind::WriteTime)), "Modify(Metadata(WriteTime))", "modify"),
		(K::Modify(ModifyKind::Metadata(MetadataKind::Permissions)), "Modify(Metadata(Permissions))", "modify"),
		(K::Modify(ModifyKind::Metadata(MetadataKind::Ownership)), "Modify(Metadata(Ownership))", "modify"),
		(K::Modify(ModifyKind::Metadata(MetadataKind::Extended)), "Modify(Metadata(Extended))", "modify"),
		(K::Modify(ModifyKind::Metadata(MetadataKind::Other)), "Modify(Metadata(Other))", "modify"),
		(K::Modify(ModifyKind::Name(RenameMode::Any)), "Modify(Name(Any))", "modify"),
		(K::Modify(ModifyKind::Name(RenameMode::To)), "Modify(Name(To))", "modify"),
		(K::Modify(ModifyKind::Name(RenameMode::From)), "Modify(Name(From))", "modify"),
		(K::Modify(ModifyKind::Name(RenameMode::Both)), "Modify(Name(Both))", "modify"),
		(K::Modify(ModifyKind::Name(RenameMode::Other)), "Modify(Name(Other))", "modify"),
		(K::Remove(RemoveKind::Any), "Remove(Any)", "remove"),
		(K::Remove(RemoveKind::File), "Remove(File)", "remove"),
		(K::Remove(RemoveKind::Folder), "Remove(Folder)", "remove"),
		(K::Remove(RemoveKind::Other), "Remove(Other)", "remove"),
	];
	for (m, name) in [
		(AccessMode::Any, "Any"),
		(AccessMode::Execute, "Execute"),
		(AccessMode::Read, "Read"),
		(AccessMode::Write, "Write"),
		(AccessMode::Other, "Other"),
	] {
		v.push((K::Access(AccessKind::Open(m)), Box::leak(format!("Access(Open({name}))").into_boxed_str()), "access"));
		v.push((K::Access(AccessKind::Close(m)), Box::leak(format!("Access(Close({name}))").into_boxed_str()), "access"));
	}
	v
}

fn nz64(n: i64) -> NonZeroI64 {
	NonZeroI64::new(if n == 0 { 1 } else { n }).unwrap()
}
fn nz32(n: i32) -> NonZeroI32 {
	NonZeroI32::new(if n == 0 { 1 } else { n }).unwrap()
}

fn signal_json(s: Signal) -> Value {
	match NAMED.iter().find(|(x, _)| *x == s) {
		Some((_, name)) => json!(name),
		None => match s {
			Signal::Custom(n) => json!(n),
			_ => json!(null),
		},
	}
}

/// Build the real tag and, independently, the documented JSON for it.
fn realise(t: &TagSpec) -> (Tag, Value) {
	let kinds = all_kinds();
	match t {
		TagSpec::Path { path, file_type } => {
			let ft = file_type.map(|i| FILETYPES[i as usize % FILETYPES.len()]);
			let mut m = Map::new();
			m.insert("kind".into(), json!("path"));
			m.insert("absolute".into(), json!(path));
			if let Some((_, name)) = ft {
				m.insert("filetype".into(), json!(name));
			}
			(
				Tag::Path {
					path: PathBuf::from(path),
					file_type: ft.map(|f| f.0),
				},
				Value::Object(m),
			)
		}
		TagSpec::Fs(i) => {
			let (k, full, simple) = kinds[*i as usize % kinds.len()];
			(Tag::FileEventKind(k), json!({"kind": "fs", "simple": simple, "full": full}))
		}
		TagSpec::Source(i) => {
			let (s, name) = SOURCES[*i as usize % SOURCES.len()];
			(Tag::Source(s), json!({"kind": "source", "source": name}))
		}
		TagSpec::Keyboard => (Tag::Keyboard(Keyboard::Eof), json!({"kind": "keyboard", "keycode": "eof"})),
		TagSpec::Process(p) => (Tag::Process(*p), json!({"kind": "process", "pid": p})),
		TagSpec::Signal(n) => {
			let s = Signal::from(*n);
			(Tag::Signal(s), json!({"kind": "signal", "signal": signal_json(s)}))
		}
		TagSpec::CustomSignal(n) => (Tag::Signal(Signal::Custom(*n)), json!({"kind": "signal", "signal": n})),
		TagSpec::ExitCustomSignal(n) => (
			Tag::ProcessCompletion(Some(ProcessEnd::ExitSignal(Signal::Custom(*n)))),
			json!({"kind": "completion", "disposition": "signal", "signal": n}),
		),
		TagSpec::NamedSignal(i) => {
			let (s, name) = NAMED[*i as usize % NAMED.len()];
			(Tag::Signal(s), json!({"kind": "signal", "signal": name}))
		}
		TagSpec::CompletionNone => (Tag::ProcessCompletion(None), json!({"kind": "completion", "disposition": "unknown"})),
		TagSpec::Success => (Tag::ProcessCompletion(Some(ProcessEnd::Success)), json!({"kind": "completion", "disposition": "success"})),
		TagSpec::Continued => (Tag::ProcessCompletion(Some(ProcessEnd::Continued)), json!({"kind": "completion", "disposition": "continued"})),
		TagSpec::ExitError(n) => {
			let n = nz64(*n);
			(Tag::ProcessCompletion(Some(ProcessEnd::ExitError(n))), json!({"kind": "completion", "disposition": "error", "code": n.get()}))
		}
		TagSpec::ExitSignal(n) => {
			let s = Signal::from(*n);
			(
				Tag::ProcessCompletion(Some(ProcessEnd::ExitSignal(s))),
				json!({"kind": "completion", "disposition": "signal", "signal": signal_json(s)}),
			)
		}
		TagSpec::ExitStop(n) => {
			let n = nz32(*n);
			(Tag::ProcessCompletion(Some(ProcessEnd::ExitStop(n))), json!({"kind": "completion", "disposition": "stop", "code": n.get()}))
		}
		TagSpec::Exception(n) => {
			let n = nz32(*n);
			(Tag::ProcessCompletion(Some(ProcessEnd::Exception(n))), json!({"kind": "completion", "disposition": "exception", "code": n.get()}))
		}
		TagSpec::Unknown => (Tag::Unknown, json!({"kind": "none"})),
	}
}

fn realise_event(e: &EventSpec) -> (Event, Value) {
	let mut tags = Vec::new();
	let mut jt = Vec::new();
	for t in &e.tags {
		let (tag, j) = realise(t);
		tags.push(tag);
		jt.push(j);
	}
	let metadata: HashMap<String, Vec<String>> = e.metadata.iter().cloned().collect();
	let mut m = Map::new();
	if !jt.is_empty() {
		m.insert("tags".into(), Value::Array(jt));
	}
	if !metadata.is_empty() {
		let mut mm = Map::new();
		for (k, v) in &metadata {
			mm.insert(k.clone(), json!(v));
		}
		m.insert("metadata".into(), Value::Object(mm));
	}
	(Event { tags, metadata }, Value::Object(m))
}

pub fn run_event(spec: &EventSpec) -> Outcome {
	let mut o = Outcome::pass();
	let (ev, reference) = realise_event(spec);
	let kinds: std::collections::HashSet<std::mem::Discriminant<TagSpec>> = spec.tags.iter().map(std::mem::discriminant).collect();
	let special = spec
		.tags
		.iter()
		.any(|t| matches!(t, TagSpec::Fs(_) | TagSpec::ExitCustomSignal(_) | TagSpec::ExitError(_) | TagSpec::ExitSignal(_) | TagSpec::ExitStop(_) | TagSpec::Exception(_) | TagSpec::Success | TagSpec::Continued | TagSpec::CompletionNone));
	o.nontrivial = (spec.tags.len() >= 3 && kinds.len() >= 2) || special;
	if special {
		o.label("fs-or-completion");
	}
	if !spec.metadata.is_empty() {
		o.label("metadata");
	}
	if spec.tags.iter().any(|t| matches!(t, TagSpec::Path { path, .. } if !path.is_ascii())) {
		o.label("non-ascii-path");
	}
	let text = match serde_json::to_string(&ev) {
		Ok(t) => t,
		Err(e) => {
			o.fail("serialise-error", format!("cannot serialise {ev:?}: {e}"));
			return o;
		}
	};
	// (1) round trip
	match serde_json::from_str::<Event>(&text) {
		Ok(back) if back == ev => {}
		Ok(back) => {
			let which = spec
				.tags
				.iter()
				.zip(ev.tags.iter().zip(back.tags.iter()))
				.find(|(_, (a, b))| a != b)
				.map(|(s, _)| format!("{s:?}"))
				.unwrap_or_else(|| "metadata".into());
			let class = which.split(|c: char| !c.is_alphanumeric()).next().unwrap_or("").to_string();
			o.fail(format!("roundtrip-differs:{class}"), format!("{ev:?}\n -> {text}\n -> {back:?}\nfirst differing tag spec: {which}"));
			return o;
		}
		Err(e) => {
			o.fail("roundtrip-parse-error", format!("{ev:?} -> {text} does not parse: {e}"));
			return o;
		}
	}
	// (1b) the same text through the other entry points of the parser: a reader (what a consumer of the emit
	// file or of stdin uses; strings cannot be borrowed from the input there), a parsed Value, and the text with
	// every string's first character written as a \u escape (never borrowable)
	let via_reader = serde_json::from_reader::<_, Event>(text.as_bytes());
	let via_value = serde_json::from_str::<Value>(&text).map_err(|e| e.to_string()).and_then(|v| serde_json::from_value::<Event>(v).map_err(|e| e.to_string()));
	for (how, res) in [("from_reader", via_reader.map_err(|e| e.to_string())), ("from_value", via_value)] {
		match res {
			Ok(back) if back == ev => {}
			Ok(back) => {
				o.fail(format!("roundtrip-differs:{how}"), format!("{ev:?}\n -> {text}\n -> ({how}) {back:?}"));
				return o;
			}
			Err(e) => {
				o.fail(format!("roundtrip-parse-error:{how}"), format!("{ev:?} -> {text} does not parse through serde_json::{how}: {e}"));
				return o;
			}
		}
	}
	// (2) documented field names and values
	let actual: Value = serde_json::from_str(&text).unwrap();
	if actual != reference {
		let at = actual
			.get("tags")
			.and_then(Value::as_array)
			.zip(reference.get("tags").and_then(Value::as_array))
			.and_then(|(a, r)| a.iter().zip(r.iter()).find(|(x, y)| x != y).map(|(x, y)| format!("actual {x} vs documented {y}")))
			.unwrap_or_else(|| format!("actual {actual} vs documented {reference}"));
		let class = spec
			.tags
			.iter()
			.zip(actual.get("tags").and_then(Value::as_array).into_iter().flatten().zip(reference.get("tags").and_then(Value::as_array).into_iter().flatten()))
			.find(|(_, (x, y))| x != y)
			.map(|(s, _)| format!("{s:?}").split(|c: char| !c.is_alphanumeric()).next().unwrap_or("").to_string())
			.unwrap_or_else(|| "event".into());
		o.fail(format!("format-differs:{class}"), format!("serialised form differs from the documented format: {at}"));
		return o;
	}
	// pretty and Vec forms parse to the same
	let arr = serde_json::to_string_pretty(&vec![ev.clone(), ev.clone()]).unwrap();
	match serde_json::from_str::<Vec<Event>>(&arr) {
		Ok(v) if v.len() == 2 && v[0] == ev && v[1] == ev => {}
		other => o.fail("array-roundtrip", format!("array form of {ev:?} parses to {other:?}")),
	}
	o
}

// ------------------------------------------------------------------ malformed tag objects

#[derive(Clone, Debug, Serialize, Deserialize)]
pub struct Malformed {
	/// one of the seven known kinds
	pub kind: String,
	/// type-valid fields (possibly belonging to other kinds), in this order
	pub fields: Vec<(String, Value)>,
}

/// What the documented format requires: Some(true) = must be of kind K (not unknown),
/// Some(false) = must be Unknown, None = either K or Unknown accepted.
fn required_ok(m: &Malformed) -> Option<bool> {
	let get = |k: &str| m.fields.iter().rev().find(|(n, _)| n == k).map(|(_, v)| v);
	let present = |k: &str| get(k).map_or(false, |v| !v.is_null());
	Some(match m.kind.as_str() {
		"path" => present("absolute"),
		"fs" => present("full") || present("simple"),
		"source" => present("source"),
		"keyboard" => present("keycode"),
		"process" => present("pid"),
		"signal" => present("signal"),
		"completion" => {
			let disp = get("disposition").and_then(Value::as_str);
			let code = get("code").and_then(Value::as_i64);
			match disp {
				None | Some("unknown") | Some("success") | Some("continued") => true,
				Some("signal") => present("signal"),
				Some("error") => code.map_or(false, |c| c != 0),
				Some("stop") | Some("exception") => code.map_or(false, |c| c != 0 && i32::try_from(c).is_ok()),
				_ => return None,
			}
		}
		_ => return None,
	})
}

fn kind_name(t: &Tag) -> &'static str {
	match t {
		Tag::Path { .. } => "path",
		Tag::FileEventKind(_) => "fs",
		Tag::Source(_) => "source",
		Tag::Keyboard(_) => "keyboard",
		Tag::Process(_) => "process",
		Tag::Signal(_) => "signal",
		Tag::ProcessCompletion(_) => "completion",
		Tag::Unknown => "unknown",
		_ => "other",
	}
}

pub fn run_malformed(m: &Malformed) -> Outcome {
	let mut o = Outcome::pass();
	o.nontrivial = true;
	let mut obj = Map::new();
	obj.insert("kind".into(), json!(m.kind));
	for (k, v) in &m.fields {
		obj.insert(k.clone(), v.clone());
	}
	let text = json!({"tags": [Value::Object(obj)]}).to_string();
	let expect = required_ok(m);
	o.label(format!("kind:{}", m.kind));
	match expect {
		Some(true) => o.label("complete"),
		Some(false) => o.label("missing-or-contradictory"),
		None => o.label("unspecified"),
	}
	let ev: Event = match serde_json::from_str(&text) {
		Ok(e) => e,
		Err(e) => {
			o.fail("malformed:parse-fails", format!("a tag of known kind {:?} with type-valid fields failed to parse: {e}\n{text}", m.kind));
			return o;
		}
	};
	// the same object through a parsed Value (strings are owned there, not borrowed from the text)
	match serde_json::from_str::<Value>(&text).ok().map(serde_json::from_value::<Event>) {
		Some(Ok(ev2)) if ev2 == ev => {}
		other => {
			o.fail("malformed:from_value-differs", format!("{text} parses to {ev:?} from text but to {other:?} from a serde_json::Value"));
			return o;
		}
	}
	if ev.tags.len() != 1 {
		o.fail("malformed:tag-count", format!("{text} parsed to {} tags", ev.tags.len()));
		return o;
	}
	let got = kind_name(&ev.tags[0]);
	if got != m.kind && got != "unknown" {
		o.fail("malformed:mistaken-for-another-kind", format!("{text} (kind {}) parsed as a {got} tag: {:?}", m.kind, ev.tags[0]));
		return o;
	}
	match expect {
		Some(false) if got != "unknown" => {
			o.fail(
				format!("malformed:not-unknown:{}", m.kind),
				format!("{text}: required fields missing or contradictory, expected an explicit unknown tag, got {:?}", ev.tags[0]),
			);
		}
		Some(true) if got == "unknown" => {
			o.fail(format!("malformed:valid-became-unknown:{}", m.kind), format!("{text}: all required fields present and valid, but parsed to Unknown"));
		}
		_ => {}
	}
	// whatever it parsed to re-serialises to something that parses to the same tag
	let again = serde_json::to_string(&ev).unwrap();
	match serde_json::from_str::<Event>(&again) {
		Ok(b) if b == ev => {}
		other => o.fail("malformed:not-idempotent", format!("{text} -> {ev:?} -> {again} -> {other:?}")),
	}
	o
}

fn field_pool() -> Vec<(&'static str, BoxedStrategy<Value>)> {
	let sigv = prop_oneof![
		proptest::sample::select(NAMED.iter().map(|x| json!(x.1)).collect::<Vec<_>>()),
		any::<i32>().prop_map(|n| json!(n)),
	];
	vec![
		("absolute", prop_oneof![Just(json!("/a/b")), "\\PC{0,10}".prop_map(|s| json!(s))].boxed()),
		("filetype", proptest::sample::select(FILETYPES.iter().map(|x| json!(x.1)).collect::<Vec<_>>()).boxed()),
		("simple", proptest::sample::select(vec![json!("access"), json!("create"), json!("modify"), json!("remove"), json!("other")]).boxed()),
		(
			"full",
			prop_oneof![
				proptest::sample::select(all_kinds().iter().map(|k| json!(k.1)).collect::<Vec<_>>()),
				"[A-Za-z()]{0,12}".prop_map(|s| json!(s)),
			]
			.boxed(),
		),
		("source", proptest::sample::select(SOURCES.iter().map(|x| json!(x.1)).collect::<Vec<_>>()).boxed()),
		("keycode", Just(json!("eof")).boxed()),
		("pid", any::<u32>().prop_map(|n| json!(n)).boxed()),
		("signal", sigv.boxed()),
		(
			"disposition",
			proptest::sample::select(vec![json!("unknown"), json!("success"), json!("error"), json!("signal"), json!("stop"), json!("exception"), json!("continued")]).boxed(),
		),
		(
			"code",
			prop_oneof![
				Just(json!(0)),
				Just(json!(1)),
				Just(json!(-1)),
				Just(json!(i64::from(i32::MAX))),
				Just(json!(i64::from(i32::MAX) + 1)),
				Just(json!(i64::from(i32::MIN))),
				Just(json!(i64::from(i32::MIN) - 1)),
				Just(json!(i64::MAX)),
				Just(json!(i64::MIN)),
				any::<i64>().prop_map(|n| json!(n)),
				any::<i16>().prop_map(|n| json!(n)),
			]
			.boxed(),
		),
		("extra_unknown_field", prop_oneof![Just(json!(true)), Just(json!([1, 2])), Just(json!({"a": null}))].boxed()),
		("metadata", Just(json!({"x": ["y"]})).boxed()),
	]
}

fn malformed_strategy() -> BoxedStrategy<Malformed> {
	let kinds = vec!["path", "fs", "source", "keyboard", "process", "signal", "completion"];
	let pool = field_pool();
	let names: Vec<&'static str> = pool.iter().map(|p| p.0).collect();
	let field = (0..pool.len()).prop_flat_map(move |i| {
		let name = names[i];
		field_pool()[i].1.clone().prop_map(move |v| (name.to_string(), v))
	});
	let nullable = (field, proptest::bool::weighted(0.07)).prop_map(|((k, v), null)| if null { (k, Value::Null) } else { (k, v) });
	(proptest::sample::select(kinds), proptest::collection::vec(nullable, 0..6))
		.prop_map(|(kind, fields)| Malformed { kind: kind.to_string(), fields })
		.boxed()
}

// ------------------------------------------------------------------ raw text (structured fuzz)

#[derive(Clone, Debug, Serialize, Deserialize)]
pub struct RawCase {
	pub text: String,
}

fn run_raw(c: &RawCase) -> Outcome {
	let mut o = Outcome::pass();
	if let Ok(ev) = serde_json::from_str::<Event>(&c.text) {
		o.label("parses");
		o.nontrivial = !ev.tags.is_empty();
		let again = serde_json::to_string(&ev).unwrap();
		match serde_json::from_str::<Event>(&again) {
			Ok(b) if b == ev => {}
			other => o.fail("raw:not-idempotent", format!("{} -> {ev:?} -> {again} -> {other:?}", c.text)),
		}
	}
	if let Ok(evs) = serde_json::from_str::<Vec<Event>>(&c.text) {
		o.label("parses-array");
		let again = serde_json::to_string(&evs).unwrap();
		match serde_json::from_str::<Vec<Event>>(&again) {
			Ok(b) if b == evs => {}
			other => o.fail("raw:not-idempotent", format!("{} -> {evs:?} -> {again} -> {other:?}", c.text)),
		}
	}
	o
}

fn raw_strategy() -> BoxedStrategy<RawCase> {
	// JSON built from malformed tag objects with occasional type-invalid values and structural noise
	let bad = prop_oneof![Just(json!(null)), Just(json!(12.5)), Just(json!("x")), Just(json!([])), Just(json!({})), Just(json!(-1)), Just(json!(true))];
	let tag = (malformed_strategy(), proptest::option::weighted(0.2, (0usize..12, bad))).prop_map(|(m, corrupt)| {
		let mut obj = Map::new();
		obj.insert("kind".into(), json!(m.kind));
		for (k, v) in m.fields {
			obj.insert(k, v);
		}
		if let Some((i, b)) = corrupt {
			let keys: Vec<String> = obj.keys().cloned().collect();
			let k = keys[i % keys.len()].clone();
			obj.insert(k, b);
		}
		Value::Object(obj)
	});
	let ev = (proptest::collection::vec(tag, 0..5), proptest::bool::weighted(0.2)).prop_map(|(tags, meta)| {
		let mut m = Map::new();
		m.insert("tags".into(), Value::Array(tags));
		if meta {
			m.insert("metadata".into(), json!({"k": ["v1", "v2"], "": []}));
		}
		Value::Object(m)
	});
	prop_oneof![
		4 => ev.clone().prop_map(|v| RawCase { text: v.to_string() }),
		2 => proptest::collection::vec(ev, 0..3).prop_map(|v| RawCase { text: Value::Array(v).to_string() }),
		1 => "[\\[\\]{}\",:a-z0-9 ]{0,40}".prop_map(|text| RawCase { text }),
	]
	.boxed()
}

// ------------------------------------------------------------------ generators for valid events

fn path_strategy() -> BoxedStrategy<String> {
	prop_oneof![
		Just(String::new()),
		Just("/".to_string()),
		Just("/home/user/a b/c".to_string()),
		"/[a-z]{1,8}(/[a-zA-Z0-9 ._-]{1,12}){0,5}",
		"\\PC{0,24}",
		"[a-z/]{150,300}",
	]
	.boxed()
}

fn tag_strategy() -> BoxedStrategy<TagSpec> {
	let n_kinds = all_kinds().len() as u16;
	prop_oneof![
		4 => (path_strategy(), proptest::option::of(0u8..4)).prop_map(|(path, file_type)| TagSpec::Path { path, file_type }),
		4 => (0..n_kinds).prop_map(TagSpec::Fs),
		2 => (0u8..6).prop_map(TagSpec::Source),
		1 => Just(TagSpec::Keyboard),
		2 => any::<u32>().prop_map(TagSpec::Process),
		2 => prop_oneof![any::<i32>(), -2i32..70].prop_map(TagSpec::Signal),
		2 => (0u8..7).prop_map(TagSpec::NamedSignal),
		2 => prop_oneof![0i32..70, any::<i32>()].prop_map(TagSpec::CustomSignal),
		1 => prop_oneof![0i32..70, any::<i32>()].prop_map(TagSpec::ExitCustomSignal),
		1 => Just(TagSpec::CompletionNone),
		1 => Just(TagSpec::Success),
		1 => Just(TagSpec::Continued),
		2 => prop_oneof![any::<i64>(), Just(i64::MIN), Just(i64::MAX), -300i64..300].prop_map(TagSpec::ExitError),
		2 => prop_oneof![any::<i32>(), -2i32..70].prop_map(TagSpec::ExitSignal),
		2 => prop_oneof![any::<i32>(), Just(i32::MIN), Just(i32::MAX), -300i32..300].prop_map(TagSpec::ExitStop),
		2 => prop_oneof![any::<i32>(), Just(i32::MIN), Just(i32::MAX)].prop_map(TagSpec::Exception),
		1 => Just(TagSpec::Unknown),
	]
	.boxed()
}

fn event_strategy() -> BoxedStrategy<EventSpec> {
	let meta = proptest::collection::vec(("\\PC{0,8}", proptest::collection::vec("\\PC{0,8}", 0..3)), 0..4);
	(proptest::collection::vec(tag_strategy(), 0..9), prop_oneof![2 => Just(vec![]), 1 => meta])
		.prop_map(|(tags, metadata)| {
			// duplicate metadata keys collapse in a map: keep the last, as a map would
			let mut seen = std::collections::HashSet::new();
			let mut md: Vec<(String, Vec<String>)> = Vec::new();
			for (k, v) in metadata.into_iter().rev() {
				if seen.insert(k.clone()) {
					md.push((k, v));
				}
			}
			EventSpec { tags, metadata: md }
		})
		.boxed()
}

pub fn check(e: &Engine) {
	e.assume("reference encoder and kind table are the harness's transcription of the documented format (field list in --emit-events-to docs, README and the pinned snapshots)");
	// (a) exhaustive: every fs kind and every first-class signal, alone and inside a completion
	let mut singles = Vec::new();
	for i in 0..all_kinds().len() as u16 {
		singles.push(EventSpec { tags: vec![TagSpec::Fs(i)], metadata: vec![] });
	}
	for i in 0..7u8 {
		singles.push(EventSpec { tags: vec![TagSpec::NamedSignal(i)], metadata: vec![] });
	}
	for (_, n) in [(0, 1), (0, 2), (0, 3), (0, 9), (0, 10), (0, 12), (0, 15)] {
		singles.push(EventSpec { tags: vec![TagSpec::ExitSignal(n)], metadata: vec![] });
		singles.push(EventSpec { tags: vec![TagSpec::Signal(n)], metadata: vec![] });
	}
	for n in -1..=70 {
		singles.push(EventSpec { tags: vec![TagSpec::CustomSignal(n)], metadata: vec![] });
		singles.push(EventSpec { tags: vec![TagSpec::ExitCustomSignal(n)], metadata: vec![] });
	}
	for i in 0..6u8 {
		singles.push(EventSpec { tags: vec![TagSpec::Source(i)], metadata: vec![] });
	}
	for i in 0..4u8 {
		singles.push(EventSpec { tags: vec![TagSpec::Path { path: "/x".into(), file_type: Some(i) }], metadata: vec![] });
	}
	e.enumerate(
		"every-kind",
		"every filesystem event kind (41), first-class signal, directly constructed Custom(n) for n in -1..=70 (as a signal and as an exit signal), source and file type as a single-tag event: round trip + documented spelling",
		true,
		singles,
		&run_event,
	);
	// sanity: the harness's kind table must cover the Debug spellings it claims (detects a stale table)
	for (k, full, _) in all_kinds() {
		if format!("{k:?}") != full {
			e.inconclusive(format!("harness kind table out of date: {k:?} vs {full}"));
		}
	}
	e.explore(
		"events",
		LegOpts::det(e.tier.pick(60_000, 2_000_000), "random events: 0-8 tags of any kind in any order, UTF-8 paths (empty, spaces, non-ASCII, long), pids over u32, Signal::from(n) over i32, exit codes over the full i64/i32 ranges, metadata maps; non-trivial = >=3 tags of >=2 kinds, or an fs/completion tag"),
		&event_strategy,
		&run_event,
	);
	e.explore(
		"malformed",
		LegOpts::det(e.tier.pick(60_000, 1_500_000), "tag objects of a known kind with a random subset of type-valid fields from all kinds (missing, extra, contradictory, null, boundary codes)"),
		&malformed_strategy,
		&run_malformed,
	);
	e.require_label("malformed", "missing-or-contradictory", 0.2);
	e.require_label("malformed", "complete", 0.2);
	e.explore(
		"raw",
		LegOpts::det(e.tier.pick(40_000, 1_000_000), "JSON text built from tag objects with type-invalid values and structural noise: anything that parses must re-serialise to an equal event; no panic"),
		&raw_strategy,
		&run_raw,
	);
	e.require_label("raw", "parses", 0.2);
	super::c16_cli::check(e);
	e.fuzz_leg("c16_json", 6000000, 1024, "coverage-guided libFuzzer (ASan) over raw JSON text, corpus seeded with the repository snapshot files; oracle inside the target: parse => re-serialise => equal, serialisation is a fixed point, no panic");
}
