//! C04 — a job never has two live processes at once.

use proptest::prelude::*;

use crate::{
	engine::{Engine, LegOpts, Outcome},
	jobdrive::{run_case, JobCase, Op, Trace},
	jobgen,
	sim::Ev,
};

/// History invariant over the simulated-child log: at every spawn all earlier
/// children have had their exit status collected.
pub fn overlap(trace: &Trace) -> Option<String> {
	let mut live: Vec<usize> = Vec::new();
	for r in &trace.log {
		match &r.ev {
			Ev::Spawned { child } => {
				if !live.is_empty() {
					return Some(format!(
						"child {child} spawned at {} ms while child(ren) {live:?} were spawned and not yet reaped",
						r.ms()
					));
				}
				live.push(*child);
			}
			Ev::WaitDone { child, .. } | Ev::TryWait { child, raw: Some(_) } => live.retain(|c| c != child),
			_ => {}
		}
	}
	None
}

pub fn run(case: &JobCase) -> Outcome {
	let mut o = Outcome::pass();
	let trace = run_case(case);
	let spawns = trace.log.iter().filter(|r| matches!(r.ev, Ev::Spawned { .. })).count();
	let graceful = case.steps.iter().any(|s| s.op.is_graceful());
	let burst = case.steps.iter().skip(1).any(|s| s.gap == 0);
	if spawns >= 2 {
		o.label("2+spawns");
	}
	if graceful {
		o.label("graceful");
	}
	if burst {
		o.label("burst");
	}
	if !case.sim.spawn_fail.is_empty() {
		o.label("spawn-fail-injected");
	}
	if trace.log.iter().any(|r| matches!(r.ev, Ev::SpawnFailed { .. })) {
		o.label("spawn-failed");
	}
	if trace.log.iter().any(|r| matches!(r.ev, Ev::WaitFailed { .. })) {
		o.label("wait-failed");
	}
	o.nontrivial = spawns >= 2 && (graceful || burst);
	if let Some(msg) = overlap(&trace) {
		o.fail("overlap", format!("{msg}\nlog: {}", jobgen::fmt_log(&trace)));
	}
	o
}

#[derive(Clone, Debug, serde::Serialize, serde::Deserialize)]
pub struct MtCase {
	pub case: JobCase,
	pub senders: usize,
}

pub fn run_mt(c: &MtCase) -> Outcome {
	let mut o = Outcome::pass();
	let trace = crate::jobdrive::run_case_mt(&c.case, c.senders, 3_000);
	let spawns = trace.log.iter().filter(|r| matches!(r.ev, Ev::Spawned { .. })).count();
	if spawns >= 2 {
		o.label("2+spawns");
	}
	o.nontrivial = spawns >= 2;
	if let Some((t, true)) = trace.task_end {
		o.fail("task-panic", format!("job task panicked at {t} ms\ncase {c:?}"));
	}
	if let Some(msg) = overlap(&trace) {
		o.fail("overlap", format!("{msg}\ncase {c:?}\nlog: {}", jobgen::fmt_log(&trace)));
	}
	o
}

pub fn check(e: &Engine) {
	e.assume("children are simulated through the public spawn hook (production job task, paused tokio clock, ms ticks); one real /bin/true is spawned per simulated spawn");
	let exhaustive_len = e.tier.pick(3, 4);
	e.enumerate(
		"exhaustive",
		"all sequences of the 11 lifecycle controls plus the raw ContinueTryGracefulRestart control up to the bound x {burst, settled} x 4 child classes; non-trivial = >=2 spawns and (graceful control or burst)",
		true,
		jobgen::exhaustive_cases(exhaustive_len),
		&run,
	);
	e.explore(
		"random",
		LegOpts::det(e.tier.pick(6000, 150_000), "random control sequences (<=14 steps), generated gaps/graces/child reactions sharing one value set so ties are frequent, spawn/kill/signal failure injection, wait() calls that fail while the child lives on (two fifths of the cases), generated select! seed"),
		&|| {
			(jobgen::job_case(jobgen::Profile::General), prop_oneof![3 => Just(vec![]), 2 => proptest::collection::vec(0u8..8, 1..4)])
				.prop_map(|(mut c, wf)| {
					c.sim.wait_fail = wf;
					c
				})
				.boxed()
		},
		&run,
	);
	e.require_label("random", "2+spawns", 0.25);
	e.require_label("random", "wait-failed", 0.08);
	e.explore(
		"real-process",
		LegOpts::realtime(
			e.tier.pick(96, 2_000),
			16,
			"3-13 controls sent by 1-3 concurrent tasks to a job supervising real processes (vhelper: plain / grouped / session, exits at once / after a delay / never on signals, may exit by itself) through process-wrap, real time: every helper takes an exclusive flock on one file per job for its whole life, so a helper that finds it held (OVERLAP record) or starts inside the recorded life span of another is a second live process. Non-trivial: two or more processes were spawned",
		),
		&super::realjob::seq_strategy,
		&super::realjob::run_seq,
	);
	e.require_label("real-process", "2+spawns", 0.4);
	e.explore(
		"multi-thread",
		LegOpts {
			cases: e.tier.pick(200, 4_000),
			shards: 8,
			threads: 8,
			confirm: 1,
			max_shrink_iters: 10,
			rule: "the same controls sent from 2-4 concurrent tasks on a multi-thread runtime with real millisecond timers (children exit by themselves within 80 ms, graces 0-20 ms); the overlap invariant must hold under whatever schedule the OS produces",
			confirm_any: &[],
		},
		&|| (jobgen::mt_case(), 2usize..5).prop_map(|(c, n)| MtCase { case: c, senders: n }).boxed(),
		&run_mt,
	);
	let _ = Op::Start;
}
