//! C11 — path filter verdicts follow the documented glob / ignore / extension rules.

use std::{ffi::OsString, path::{Path, PathBuf}};

use proptest::prelude::*;
use serde::{Deserialize, Serialize};
use watchexec::filter::Filterer;
use watchexec_events::{Event, FileType, Priority, Tag};
use watchexec_filterer_globset::GlobsetFilterer;

use crate::{
	engine::{Engine, LegOpts, Outcome},
	gitmodel::{parse_line, verdict_path_only, Line, Verdict},
	patgen,
};

#[derive(Clone, Debug, Serialize, Deserialize)]
pub struct Probe {
	pub comps: Vec<String>,
	/// 0 unknown, 1 file, 2 dir, 3 symlink, 4 other
	pub ft: u8,
	pub outside: bool,
}

#[derive(Clone, Debug, Serialize, Deserialize)]
pub struct C11Case {
	pub filters: Vec<String>,
	pub ignores: Vec<String>,
	pub exts: Vec<String>,
	/// lines of an ignore file at the origin (no negations)
	pub ignore_file: Option<Vec<String>>,
	pub events: Vec<Vec<Probe>>,
	/// indices (event, path) of probes that are whitelisted
	pub whitelist: Vec<(u8, u8)>,
	/// non-negated ignore pattern appended for the monotonicity law
	pub extra_ignore: String,
	/// how the origin is named to the filterer and in the event paths: 0 canonical, 1 through a symbolic link to
	/// it, 2 with a `name/..` detour (only without an ignore file, whose own scoping is C03's subject)
	#[serde(default)]
	pub origin_spelling: u8,
}

fn std_extension(name: &str) -> Option<&str> {
	if name == ".." {
		return None;
	}
	match name.rfind('.') {
		None | Some(0) => None,
		Some(i) => Some(&name[i + 1..]),
	}
}

struct Model {
	filters: Vec<Line>,
	ignores: Vec<Line>,
	exts: Vec<String>,
	file_lines: Vec<Line>,
}

impl Model {
	fn candidates(p: &Probe) -> Vec<&str> {
		let mut v: Vec<&str> = Vec::new();
		if p.outside {
			// absolute candidate that is not under the origin: leading root stays in the way of anchored patterns
			v.push("");
			v.push("outside-vh");
		}
		v.extend(p.comps.iter().map(String::as_str));
		v
	}

	fn path_ok(&self, p: &Probe) -> bool {
		let is_dir = p.ft == 2;
		let c = Self::candidates(p);
		if verdict_path_only(&self.ignores, &c, is_dir) == Verdict::Ignore {
			return false;
		}
		let mut filtered = false;
		if self.filters.iter().any(|l| !l.neg) {
			filtered = true;
			if verdict_path_only(&self.filters, &c, is_dir) == Verdict::Ignore {
				return true;
			}
			if !p.outside {
				// documented 1.x compatibility: the same path with a doubled separator after the origin
				let mut c2 = vec![""];
				c2.extend(c.iter());
				if verdict_path_only(&self.filters, &c2, is_dir) == Verdict::Ignore {
					return true;
				}
			}
		}
		if !self.exts.is_empty() {
			filtered = true;
			if is_dir {
				return false;
			}
			match p.comps.last().and_then(|n| std_extension(n)) {
				Some(e) => {
					if self.exts.iter().any(|x| x == e) {
						return true;
					}
				}
				None => return false,
			}
		}
		!filtered
	}

	fn ignore_file_rejects(&self, ev: &[Probe]) -> bool {
		// path-or-parents inside the origin, no negations in this leg: any ignored path rejects
		ev.iter().any(|p| {
			if p.outside {
				return false;
			}
			let c: Vec<&str> = p.comps.iter().map(String::as_str).collect();
			crate::gitmodel::verdict_path_or_parents(&self.file_lines, &c, p.ft == 2) == Verdict::Ignore
		})
	}

	fn event(&self, ev: &[Probe], whitelisted: bool) -> bool {
		if ev.is_empty() {
			return true;
		}
		if whitelisted {
			return true;
		}
		if self.ignore_file_rejects(ev) {
			return false;
		}
		ev.iter().any(|p| self.path_ok(p))
	}
}

fn build_event(origin: &std::path::Path, ev: &[Probe]) -> Event {
	let mut tags = vec![Tag::Source(watchexec_events::Source::Filesystem)];
	for p in ev {
		tags.push(Tag::Path {
			path: probe_path(origin, p),
			file_type: match p.ft {
				1 => Some(FileType::File),
				2 => Some(FileType::Dir),
				3 => Some(FileType::Symlink),
				4 => Some(FileType::Other),
				_ => None,
			},
		});
	}
	Event { tags, metadata: Default::default() }
}

fn probe_path(origin: &std::path::Path, p: &Probe) -> PathBuf {
	let mut b = if p.outside { PathBuf::from("/outside-vh") } else { origin.to_path_buf() };
	for c in &p.comps {
		b.push(c);
	}
	b
}

fn shared_origin() -> PathBuf {
	use std::sync::OnceLock;
	static O: OnceLock<PathBuf> = OnceLock::new();
	O.get_or_init(|| {
		let base = if std::path::Path::new("/dev/shm").is_dir() { PathBuf::from("/dev/shm") } else { std::env::temp_dir() };
		let d = base.join(format!("vh-c11-{}", std::process::id())).join("origin");
		std::fs::create_dir_all(&d).unwrap();
		d.canonicalize().unwrap()
	})
	.clone()
}

pub fn run(c: &C11Case) -> Outcome {
	let mut o = Outcome::pass();
	let rt = tokio::runtime::Builder::new_current_thread().enable_all().build().unwrap();
	let tmp;
	let origin = if c.ignore_file.is_some() {
		tmp = tempfile::Builder::new().prefix("vh-c11f-").tempdir_in(shared_origin().parent().unwrap()).unwrap();
		tmp.path().canonicalize().unwrap()
	} else {
		shared_origin()
	};
	// the origin as the filterer and the event paths name it
	let origin = match (c.ignore_file.is_some(), c.origin_spelling) {
		(false, 1) => {
			let link = origin.parent().unwrap().join(format!("{}-link", origin.file_name().unwrap().to_string_lossy()));
			match std::os::unix::fs::symlink(&origin, &link) {
				Ok(()) => {}
				Err(e) if e.kind() == std::io::ErrorKind::AlreadyExists => {}
				Err(e) => {
					o.fail("env:symlink", e.to_string());
					return o;
				}
			}
			o.label("origin-through-a-symlink");
			link
		}
		(false, 2) => {
			let detour = origin.parent().unwrap().join("detour");
			let _ = std::fs::create_dir_all(&detour);
			o.label("origin-with-a-dotdot-detour");
			detour.join("..").join(origin.file_name().unwrap())
		}
		_ => origin,
	};
	let mut ignore_files = Vec::new();
	if let Some(lines) = &c.ignore_file {
		let f = origin.join(".ignore");
		std::fs::write(&f, lines.join("\n") + "\n").unwrap();
		ignore_files.push(ignore_files::IgnoreFile {
			path: f,
			applies_in: Some(origin.clone()),
			applies_to: None,
		});
	}
	let whitelist: Vec<PathBuf> = c
		.whitelist
		.iter()
		.filter_map(|(e, p)| c.events.get(*e as usize).and_then(|ev| ev.get(*p as usize)).map(|pr| probe_path(&origin, pr)))
		.collect();
	// the filterer is given the whitelisted paths in a spelling of their own: the same path (std::path
	// equality) written with a doubled separator, a "." component or a trailing separator, chosen per entry
	let whitelist_spelled: Vec<PathBuf> = whitelist
		.iter()
		.enumerate()
		.map(|(i, p)| {
			let parent = p.parent().map(Path::to_path_buf);
			let name = p.file_name().map(|n| n.to_os_string());
			match ((i + c.events.len() + c.filters.len()) % 4, parent, name) {
				(1, Some(d), Some(n)) => {
					let mut s = d.into_os_string();
					s.push("//");
					s.push(n);
					PathBuf::from(s)
				}
				(2, Some(d), Some(n)) => d.join(".").join(n),
				(3, _, _) => {
					let mut s = p.clone().into_os_string();
					s.push("/");
					PathBuf::from(s)
				}
				_ => p.clone(),
			}
		})
		.collect();
	debug_assert!(whitelist.iter().zip(whitelist_spelled.iter()).all(|(a, b)| a == b));
	let mk = |ignores: Vec<String>| {
		rt.block_on(GlobsetFilterer::new(
			&origin,
			c.filters.iter().map(|f| (f.clone(), None)),
			ignores.into_iter().map(|f| (f, None)),
			whitelist_spelled.clone(),
			ignore_files.clone(),
			c.exts.iter().map(OsString::from),
		))
	};
	let filterer = match mk(c.ignores.clone()) {
		Ok(f) => f,
		Err(e) => {
			o.fail("harness:filterer-build", format!("{e:?}"));
			return o;
		}
	};
	let mut ig2 = c.ignores.clone();
	ig2.push(c.extra_ignore.clone());
	let filterer2 = mk(ig2.clone()).expect("extended filterer");
	let parse = |v: &[String]| v.iter().filter_map(|l| parse_line(l)).collect::<Vec<_>>();
	let model = Model {
		filters: parse(&c.filters),
		ignores: parse(&c.ignores),
		exts: c.exts.clone(),
		file_lines: c.ignore_file.as_deref().map(parse).unwrap_or_default(),
	};
	let configured = [!c.filters.is_empty(), !c.ignores.is_empty(), !c.exts.is_empty()].iter().filter(|b| **b).count();
	let mut any_match = false;
	let dump = |what: &str| format!("{what}\ncase: {c:?}");
	for (ei, ev) in c.events.iter().enumerate() {
		let event = build_event(&origin, ev);
		let got = match filterer.check_event(&event, Priority::Normal) {
			Ok(v) => v,
			Err(e) => {
				o.fail("filter-error", dump(&format!("event {ei}: {e}")));
				return o;
			}
		};
		let wl = ev.iter().any(|p| whitelist.contains(&probe_path(&origin, p)));
		let want = model.event(ev, wl);
		if ev.iter().any(|p| {
			let cand = Model::candidates(p);
			verdict_path_only(&model.ignores, &cand, p.ft == 2) != Verdict::None || verdict_path_only(&model.filters, &cand, p.ft == 2) != Verdict::None
		}) {
			any_match = true;
		}
		if ev.len() >= 2 {
			o.label("multi-path-event");
		}
		if wl {
			o.label("whitelisted");
		}
		if ev.iter().any(|p| p.outside) {
			o.label("outside-origin");
		}
		if got != want {
			let sig = if ev.is_empty() {
				"no-path-event-rejected"
			} else if wl {
				"whitelisted-file-rejected"
			} else if ev.len() >= 2 {
				"verdict-differs:multi-path"
			} else if ev[0].outside {
				"verdict-differs:outside-origin"
			} else {
				"verdict-differs:single-path"
			};
			o.fail(sig, dump(&format!("event {ei} {ev:?}: filterer says {got}, documented rules say {want}")));
			return o;
		}
		// law: empty configuration passes everything
		if configured == 0 && c.ignore_file.is_none() && !got {
			o.fail("law:empty-config-rejects", dump(&format!("event {ei} rejected by an empty configuration")));
			return o;
		}
		// law: an ignore match beats a filter match on the same path
		if ev.len() == 1 && !wl && verdict_path_only(&model.ignores, &Model::candidates(&ev[0]), ev[0].ft == 2) == Verdict::Ignore && got {
			o.fail("law:ignore-does-not-beat-filter", dump(&format!("event {ei}: path matched by an ignore pattern passed")));
			return o;
		}
		// law: adding a non-negated ignore pattern can only turn passes into rejections
		let got2 = filterer2.check_event(&event, Priority::Normal).unwrap_or(true);
		if got2 && !got {
			o.fail("law:monotonicity", dump(&format!("event {ei}: rejected, but passes after appending ignore pattern {:?}", c.extra_ignore)));
			return o;
		}
	}
	if configured >= 2 {
		o.label("2+mechanisms");
	}
	if any_match {
		o.label("pattern-matches-a-path");
	}
	o.nontrivial = any_match && configured >= 2;
	o
}

fn strategy() -> BoxedStrategy<C11Case> {
	patgen::alpha()
		.prop_flat_map(|al| {
			let probe = (al.rel_path(4), prop_oneof![4 => 0u8..3, 1 => 3u8..5], proptest::bool::weighted(0.12)).prop_map(|(comps, ft, outside)| Probe { comps, ft, outside });
			let filters = prop_oneof![
				2 => Just(vec![]),
				3 => (al.positive_pattern(), proptest::collection::vec(al.pattern(0.2), 0..3)).prop_map(|(p, mut rest)| {
					rest.insert(0, p);
					rest
				}),
			];
			let ignores = proptest::collection::vec(al.pattern(0.25), 0..4);
			let exts = prop_oneof![2 => Just(vec![]), 2 => proptest::collection::vec(proptest::sample::select(patgen::EXTS.to_vec()).prop_map(str::to_string), 1..3)];
			let ignore_file = proptest::option::weighted(0.12, proptest::collection::vec(al.positive_pattern(), 1..3));
			let events = proptest::collection::vec(
				prop_oneof![1 => Just(vec![]), 8 => proptest::collection::vec(probe.clone(), 1..2), 3 => proptest::collection::vec(probe, 2..4)],
				1..6,
			);
			(filters, ignores, exts, ignore_file, events, proptest::collection::vec((0u8..6, 0u8..3), 0..2), (proptest::bool::weighted(0.15), prop_oneof![6 => Just(0u8), 1 => Just(1u8), 1 => Just(2u8)]), al.positive_pattern())
		})
		.prop_map(|(filters, ignores, exts, ignore_file, events, wl, (use_wl, origin_spelling), extra_ignore)| C11Case {
			filters,
			ignores,
			exts,
			ignore_file,
			events,
			whitelist: if use_wl { wl } else { vec![] },
			extra_ignore,
			origin_spelling,
		})
		.boxed()
}

pub fn check(e: &Engine) {
	e.assume("pattern grammar: names, *.ext, dir/, /rooted, a/b, **/x, x/**, a/**/b, ?, negations; filter lists always contain at least one non-negated pattern (an all-negated filter list is not settled by the docs)");
	e.assume("ignore-file leg inside C11 uses a single origin-level file without negations (scoping and negation are C03's subject)");
	e.explore(
		"verdicts",
		LegOpts::det(e.tier.pick(25_000, 500_000), "0-3 filter patterns, 0-3 ignore patterns, 0-2 extensions, the origin named canonically, through a symbolic link or with a 'name/..' detour (event paths use the same spelling), optional whitelist (entries handed over in a spelling of their own: plain, doubled separator, '.' component, trailing separator) and origin-level ignore file; 1-5 events of 0-3 paths (file/dir/unknown, inside/outside origin); verdict vs independent matcher + laws (empty config, precedence, monotonicity); non-trivial = a pattern matches a path and >=2 mechanisms configured"),
		&strategy,
		&run,
	);
	e.require_label("verdicts", "pattern-matches-a-path", 0.4);
	e.require_label("verdicts", "multi-path-event", 0.2);
	e.fuzz_leg("c11_glob", 150000, 256, "coverage-guided libFuzzer over byte-decoded (patterns, path) pairs from the pattern grammar; oracle inside the target: the harness reference matcher agrees with the glob library for path-only and path-or-parents matching (hardens the oracle used by C03/C11/C14)");
}
