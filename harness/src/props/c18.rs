//! C18 — commands are spawned with exactly the configured program and arguments.
//! Real processes: the child is `vhelper` in dump mode (also used *as the shell*, which makes the
//! exact argv the shell receives observable).

use std::{
	borrow::Cow,
	ffi::OsStr,
	path::{Path, PathBuf},
	sync::Arc,
	time::Duration,
};

use proptest::prelude::*;
use serde::{Deserialize, Serialize};
use serde_json::Value;
use watchexec_supervisor::{
	command::{Command, Program, Shell, SpawnOptions},
	job::start_job,
};

use crate::engine::{Engine, LegOpts, Outcome};

pub fn helper_path() -> PathBuf {
	let exe = std::env::current_exe().expect("current_exe");
	exe.parent().unwrap().join("vhelper")
}

pub fn wx_path() -> PathBuf {
	std::env::current_exe().unwrap().parent().unwrap().join("wx")
}

pub fn scratch() -> PathBuf {
	if Path::new("/dev/shm").is_dir() {
		PathBuf::from("/dev/shm")
	} else {
		std::env::temp_dir()
	}
}

pub fn unhex(s: &str) -> Vec<u8> {
	(0..s.len() / 2).filter_map(|i| u8::from_str_radix(&s[2 * i..2 * i + 2], 16).ok()).collect()
}

#[derive(Clone, Debug, Serialize, Deserialize)]
pub struct C18Case {
	/// None = direct exec
	pub shell: Option<ShellSpec>,
	pub args: Vec<String>,
	/// 0 plain, 1 grouped, 2 session
	pub wrap: u8,
	pub reset_sigmask: bool,
	/// spawn through a Job with a hook that sets env and cwd (true) or Command::to_spawnable directly
	pub via_job: bool,
	pub hook_env: String,
}

#[derive(Clone, Debug, Serialize, Deserialize)]
pub struct ShellSpec {
	pub options: Vec<String>,
	pub program_option: Option<String>,
	pub command: String,
}

fn command_of(c: &C18Case) -> Command {
	let helper = helper_path();
	let program = match &c.shell {
		None => Program::Exec {
			prog: helper,
			args: c.args.clone(),
		},
		Some(s) => Program::Shell {
			shell: Shell {
				prog: helper,
				options: s.options.clone(),
				program_option: s.program_option.clone().map(|p| Cow::Owned(OsStr::new(&p).to_owned())),
			},
			command: s.command.clone(),
			args: c.args.clone(),
		},
	};
	Command {
		program,
		options: SpawnOptions {
			grouped: matches!(c.wrap % 4, 1 | 3),
			session: matches!(c.wrap % 4, 2 | 3),
			reset_sigmask: c.reset_sigmask,
		},
	}
}

fn expected_argv(c: &C18Case) -> Vec<Vec<u8>> {
	let mut v: Vec<Vec<u8>> = Vec::new();
	if let Some(s) = &c.shell {
		for o in &s.options {
			v.push(o.as_bytes().to_vec());
		}
		if let Some(p) = &s.program_option {
			v.push(p.as_bytes().to_vec());
		}
		v.push(s.command.as_bytes().to_vec());
	}
	for a in &c.args {
		v.push(a.as_bytes().to_vec());
	}
	v
}

fn read_dump(path: &Path, wait_ms: u64) -> Option<Value> {
	let until = std::time::Instant::now() + Duration::from_millis(wait_ms);
	loop {
		if let Ok(s) = std::fs::read_to_string(path) {
			if let Ok(v) = serde_json::from_str::<Value>(&s) {
				return Some(v);
			}
		}
		if std::time::Instant::now() > until {
			return None;
		}
		std::thread::sleep(Duration::from_millis(2));
	}
}

pub fn run(c: &C18Case) -> Outcome {
	let mut o = Outcome::pass();
	let dir = tempfile::Builder::new().prefix("vh-c18-").tempdir_in(scratch()).unwrap();
	let dump = dir.path().join("dump.json");
	let hook_cwd = dir.path().join("cwd here");
	std::fs::create_dir_all(&hook_cwd).unwrap();
	let cmd = command_of(c);
	let special = expected_argv(c).iter().any(|a| a.is_empty() || a.iter().any(|b| b" \t\n\"'$*\\".contains(b) || *b >= 0x80));
	if special {
		o.label("special-characters");
	}
	o.label(["plain", "grouped", "session", "session+grouped"][(c.wrap % 4) as usize]);
	o.label(if c.shell.is_some() { "shell" } else { "exec" });
	if c.via_job {
		o.label("via-job-hook");
	}
	o.nontrivial = special;
	let rt = tokio::runtime::Builder::new_current_thread().enable_all().build().unwrap();
	let my_pgid = unsafe { libc::getpgid(0) };
	let my_sid = unsafe { libc::getsid(0) };
	let res: Result<(), String> = rt.block_on(async {
		if c.via_job {
			let (job, task) = start_job(Arc::new(cmd));
			let dump2 = dump.clone();
			let cwd2 = hook_cwd.clone();
			let envv = c.hook_env.clone();
			job.set_spawn_hook(move |cmd, _| {
				cmd.command_mut().env("VERIF_DUMP", &dump2).env("VERIF_HOOK_ENV", &envv).current_dir(&cwd2);
			});
			job.start().await;
			tokio::time::timeout(Duration::from_secs(10), job.to_wait()).await.map_err(|_| "child did not end in 10 s".to_string())?;
			job.delete_now().await;
			let _ = task.await;
		} else {
			let mut sp = cmd.to_spawnable();
			sp.command_mut().env("VERIF_DUMP", &dump);
			let mut child = sp.spawn().map_err(|e| format!("spawn failed: {e}"))?;
			tokio::time::timeout(Duration::from_secs(10), Box::into_pin(child.wait())).await.map_err(|_| "child did not end in 10 s".to_string())?.map_err(|e| e.to_string())?;
		}
		Ok(())
	});
	if let Err(e) = res {
		o.fail("harness:spawn", format!("{e}\ncase {c:?}"));
		return o;
	}
	let Some(d) = read_dump(&dump, 3000) else {
		o.fail("child-left-no-dump", format!("the child did not report its argv\ncase {c:?}"));
		return o;
	};
	let got: Vec<Vec<u8>> = d["argv"].as_array().map(|a| a.iter().skip(1).map(|x| unhex(x.as_str().unwrap_or(""))).collect()).unwrap_or_default();
	let want = expected_argv(c);
	if got != want {
		let show = |v: &Vec<Vec<u8>>| v.iter().map(|a| String::from_utf8_lossy(a).into_owned()).collect::<Vec<_>>();
		o.fail(
			if c.shell.is_some() { "argv-differs:shell" } else { "argv-differs:exec" },
			format!("child received {:?}, expected {:?}\ncase {c:?}", show(&got), show(&want)),
		);
		return o;
	}
	let (pid, pgid, sid) = (d["pid"].as_i64().unwrap_or(0), d["pgid"].as_i64().unwrap_or(0), d["sid"].as_i64().unwrap_or(0));
	match c.wrap % 4 {
		1 => {
			if pgid != pid || pgid == i64::from(my_pgid) {
				o.fail("process-group", format!("grouped: child pid {pid} pgid {pgid}, harness pgid {my_pgid}\ncase {c:?}"));
			}
		}
		2 | 3 => {
			// a session implies its own process group
			if sid != pid || pgid != pid {
				o.fail("process-session", format!("session: child pid {pid} sid {sid} pgid {pgid}\ncase {c:?}"));
			}
		}
		_ => {
			if pgid != i64::from(my_pgid) || sid != i64::from(my_sid) {
				o.fail("process-group", format!("plain: child pgid {pgid} sid {sid}, harness pgid {my_pgid} sid {my_sid}\ncase {c:?}"));
			}
		}
	}
	if c.via_job {
		let env = d["env"]["VERIF_HOOK_ENV"].as_str().map(unhex);
		if env.as_deref() != Some(c.hook_env.as_bytes()) {
			o.fail("hook-env-not-visible", format!("child saw VERIF_HOOK_ENV={env:?}, hook set {:?}\ncase {c:?}", c.hook_env));
		}
		let cwd = d["cwd"].as_str().map(unhex).unwrap_or_default();
		let want = hook_cwd.canonicalize().unwrap();
		if Path::new(OsStr::new(std::str::from_utf8(&cwd).unwrap_or(""))) != want {
			o.fail("hook-cwd-not-visible", format!("child cwd {:?}, hook set {want:?}\ncase {c:?}", String::from_utf8_lossy(&cwd)));
		}
	}
	o
}

// ------------------------------------------------------------------ hook applies on every spawn path

#[derive(Clone, Debug, Serialize, Deserialize)]
pub struct HookPathCase {
	/// 0 restart, 1 try_restart, 2 restart_with_signal, 3 try_restart_with_signal
	pub ops: Vec<u8>,
	/// the command ignores the stop signal (so graceful variants run out of grace)
	pub ignore: bool,
	pub value: String,
	/// the executable (a per-case copy of the helper) is open for writing when the job is first started and for
	/// 150 ms after: that spawn fails with ETXTBSY ("text file busy"); whatever the supervisor does about it,
	/// every process that does get spawned must see the hook's changes
	#[serde(default)]
	pub busy: bool,
}

fn run_hook_paths(c: &HookPathCase) -> Outcome {
	use watchexec_signals::Signal;
	let mut o = Outcome::pass();
	o.nontrivial = c.ops.len() >= 2;
	o.label(if c.ignore { "command-ignores-signal" } else { "command-exits-on-signal" });
	let logs = super::c08::Logs::new("vh-c18h-");
	let prog = if c.busy {
		let copy = logs.dir.path().join("helper-copy");
		if let Err(e) = std::fs::copy(helper_path(), &copy) {
			o.fail("env:helper-copy", e.to_string());
			return o;
		}
		o.label("executable-busy-at-first-start");
		copy
	} else {
		helper_path()
	};
	let busy_prog = prog.clone();
	let cmd = Command {
		program: Program::Exec {
			prog,
			args: vec![
				"run".into(),
				"--log".into(),
				logs.log().to_string_lossy().into_owned(),
				"--lock".into(),
				logs.dir.path().join("lock").to_string_lossy().into_owned(),
				"--on-signal".into(),
				if c.ignore { "ignore".into() } else { "exit".into() },
			],
		},
		options: SpawnOptions::default(),
	};
	let rt = tokio::runtime::Builder::new_current_thread().enable_all().build().unwrap();
	let names = ["restart", "try_restart", "restart_with_signal", "try_restart_with_signal"];
	let res: Result<(), String> = rt.block_on(async {
		let (job, task) = start_job(Arc::new(cmd));
		let value = c.value.clone();
		job.set_spawn_hook(move |cmd, _| {
			cmd.command_mut().env("VERIF_HOOK_ENV", &value);
		});
		let starts = |logs: &super::c08::Logs| logs.lines().iter().filter(|l| l[0] == "start").count();
		let wait_for = |n: usize| {
			let logs = &logs;
			async move {
				let until = std::time::Instant::now() + Duration::from_secs(5);
				while starts(logs) < n && std::time::Instant::now() < until {
					tokio::time::sleep(Duration::from_millis(3)).await;
				}
				starts(logs) >= n
			}
		};
		if c.busy {
			let writer = std::fs::OpenOptions::new().write(true).open(&busy_prog).map_err(|e| format!("env: {e}"))?;
			let holder = tokio::task::spawn_blocking(move || {
				std::thread::sleep(Duration::from_millis(150));
				drop(writer);
			});
			job.start().await;
			let _ = holder.await;
			tokio::time::sleep(Duration::from_millis(100)).await;
			// nothing was spawned while the executable was busy (the failure went to the error handler): start again
			if starts(&logs) == 0 {
				tokio::time::sleep(Duration::from_millis(1200)).await;
			}
			if starts(&logs) == 0 {
				job.start().await;
			}
		} else {
			job.start().await;
		}
		if !wait_for(1).await {
			return Err("first start not observed".into());
		}
		for (k, op) in c.ops.iter().enumerate() {
			let g = Duration::from_millis(120);
			match op % 4 {
				0 => job.restart().await,
				1 => job.try_restart().await,
				2 => job.restart_with_signal(Signal::Terminate, g).await,
				_ => job.try_restart_with_signal(Signal::Terminate, g).await,
			};
			if !wait_for(k + 2).await {
				return Err(format!("no new process after {} (op {k})", names[(*op % 4) as usize]));
			}
		}
		job.delete_now().await;
		let _ = task.await;
		Ok(())
	});
	let pids = logs.pids();
	super::c08::kill_all(&pids);
	if let Err(e) = res {
		o.fail("harness:hook-paths", format!("{e}\ncase {c:?}\n{}", std::fs::read_to_string(logs.log()).unwrap_or_default()));
		return o;
	}
	let want = format!("VERIF_HOOK_ENV={}", c.value.as_bytes().iter().map(|b| format!("{b:02x}")).collect::<String>());
	for (k, l) in logs.lines().iter().filter(|l| l[0] == "start").enumerate() {
		let has = l.iter().any(|f| f.split(',').any(|kv| kv == want));
		if !has {
			let via = if k == 0 { "start".to_string() } else { names[(c.ops[k - 1] % 4) as usize].to_string() };
			o.fail(
				format!("hook-env-not-visible:{via}"),
				format!("process #{k} (spawned by {via}) does not see the environment set by the spawn hook: {l:?}\ncase {c:?}"),
			);
			return o;
		}
	}
	o
}

// ------------------------------------------------------------------ CLI leg

#[derive(Clone, Debug, Serialize, Deserialize)]
pub struct CliCase {
	/// -n (no shell) or --shell=<vhelper [opts]>
	pub no_shell: bool,
	pub shell_opts: Vec<String>,
	pub words: Vec<String>,
}

fn run_cli(c: &CliCase) -> Outcome {
	let mut o = Outcome::pass();
	o.nontrivial = c.words.iter().any(|w| w.contains(' ') || w.is_empty() || !w.is_ascii());
	o.label(if c.no_shell { "-n" } else { "--shell" });
	let dir = tempfile::Builder::new().prefix("vh-c18c-").tempdir_in(scratch()).unwrap();
	let dump = dir.path().join("dump.json");
	let helper = helper_path();
	let mut cmd = std::process::Command::new(wx_path());
	cmd.current_dir(dir.path()).env("VERIF_DUMP", &dump).env("HOME", dir.path()).env_remove("SHELL").arg("-1").arg("--quiet");
	if c.no_shell {
		cmd.arg("-n").arg("--").arg(&helper);
	} else {
		let mut sh = helper.to_string_lossy().into_owned();
		for o in &c.shell_opts {
			sh.push(' ');
			sh.push_str(o);
		}
		cmd.arg(format!("--shell={sh}")).arg("--");
	}
	for w in &c.words {
		cmd.arg(w);
	}
	let out = match cmd.stdin(std::process::Stdio::null()).output() {
		Ok(o) => o,
		Err(e) => {
			o.fail("env:wx-spawn", e.to_string());
			return o;
		}
	};
	let Some(d) = read_dump(&dump, 3000) else {
		o.fail("child-left-no-dump", format!("wx exit {:?} stderr {}\ncase {c:?}", out.status, String::from_utf8_lossy(&out.stderr)));
		return o;
	};
	let got: Vec<String> = d["argv"].as_array().map(|a| a.iter().skip(1).map(|x| String::from_utf8_lossy(&unhex(x.as_str().unwrap_or(""))).into_owned()).collect()).unwrap_or_default();
	let want: Vec<String> = if c.no_shell {
		c.words.clone()
	} else {
		let mut v = c.shell_opts.clone();
		v.push("-c".into());
		v.push(c.words.join(" "));
		v
	};
	if got != want {
		o.fail(if c.no_shell { "cli-argv-differs:no-shell" } else { "cli-argv-differs:shell" }, format!("child received {got:?}, expected {want:?}\ncase {c:?}"));
	}
	o
}

fn arg() -> impl Strategy<Value = String> {
	prop_oneof![
		3 => "[a-z]{1,6}",
		2 => Just(String::new()),
		2 => Just("a b".to_string()),
		1 => Just("  two  spaces ".to_string()),
		1 => Just("tab\there".to_string()),
		1 => Just("line\nbreak".to_string()),
		1 => Just("\"quoted\"".to_string()),
		1 => Just("it's".to_string()),
		1 => Just("$HOME".to_string()),
		1 => Just("*".to_string()),
		1 => Just("a\\b".to_string()),
		1 => Just("-c".to_string()),
		1 => Just("--".to_string()),
		// a leading @ means "argument file" to the CLI, but only before the -- separator
		1 => Just("@foo".to_string()),
		1 => Just("@".to_string()),
		1 => Just("@@x y".to_string()),
		1 => Just("ünï©ode ✓".to_string()),
		2 => "[ -~]{0,12}",
		1 => "\\PC{0,8}".prop_map(|s| s.replace('\0', "")),
	]
}

fn strategy() -> BoxedStrategy<C18Case> {
	let shell = (
		proptest::collection::vec(arg(), 0..4),
		prop_oneof![2 => Just(None), 3 => Just(Some("-c".to_string())), 1 => Just(Some("/C".to_string())), 1 => arg().prop_map(Some)],
		arg(),
	)
		.prop_map(|(options, program_option, command)| ShellSpec { options, program_option, command });
	(proptest::option::weighted(0.5, shell), proptest::collection::vec(arg(), 0..7), 0u8..4, any::<bool>(), proptest::bool::weighted(0.4), arg())
		.prop_map(|(shell, args, wrap, reset_sigmask, via_job, hook_env)| C18Case {
			shell,
			args,
			wrap,
			reset_sigmask,
			via_job,
			hook_env: hook_env.replace('\0', ""),
		})
		.boxed()
}

pub fn check(e: &Engine) {
	e.assume("NUL bytes are excluded (the OS cannot carry them in argv); Linux only");
	if !helper_path().exists() || !wx_path().exists() {
		e.inconclusive("vhelper / wx binaries not built next to vcheck");
		return;
	}
	e.explore(
		"argv",
		LegOpts {
			cases: e.tier.pick(2_500, 60_000),
			shards: 16,
			threads: 16,
			confirm: 1,
			max_shrink_iters: 200,
			rule: "argument vectors of 0-6 strings rich in spaces, tabs, newlines, quotes, $, *, backslashes, empty strings and non-ASCII text; exec or shell (helper binary used as the shell, 0-3 options, program option none / -c / /C / arbitrary, command string, extra args); plain / grouped / session, reset_sigmask; spawned directly or through a Job whose spawn hook sets env and cwd; non-trivial = an argument with special characters",
			confirm_any: &[],
		},
		&strategy,
		&run,
	);
	e.require_label("argv", "special-characters", 0.5);
	e.explore(
		"hook-on-every-spawn-path",
		LegOpts {
			cases: e.tier.pick(64, 1500),
			shards: 16,
			threads: 16,
			confirm: 1,
			max_shrink_iters: 20,
			rule: "real processes: a job with an env-setting spawn hook goes through 1-4 of restart / try_restart / restart_with_signal / try_restart_with_signal with a command that exits on or ignores the stop signal (grace 120 ms); every spawned process must see the hook's environment; in a quarter of the cases the executable (a per-case copy) is open for writing at the first start (ETXTBSY), and whatever is spawned afterwards must still see it",
			confirm_any: &[],
		},
		&|| (proptest::collection::vec(0u8..4, 1..5), any::<bool>(), "[a-z ]{1,8}", proptest::bool::weighted(0.25)).prop_map(|(ops, ignore, value, busy)| HookPathCase { ops, ignore, value, busy }).boxed(),
		&run_hook_paths,
	);
	e.explore(
		"cli",
		LegOpts {
			cases: e.tier.pick(48, 600),
			shards: 8,
			threads: 8,
			confirm: 1,
			max_shrink_iters: 30,
			rule: "the real CLI (wx shim) with -1: --shell=<helper [opts]> joins the words with single spaces behind -c; -n passes the words verbatim; words include leading/trailing/double spaces, non-ASCII, $X, *, quotes and words starting with @ (argument-file syntax, which must not apply after the -- separator)",
			confirm_any: &[],
		},
		&|| {
			(any::<bool>(), proptest::collection::vec("[a-z-]{1,5}", 0..3), proptest::collection::vec(prop_oneof![3 => "[a-z]{1,6}", 1 => Just("b  c".to_string()), 1 => Just("x y".to_string()), 1 => Just(" lead".to_string()), 1 => Just("trail ".to_string()), 1 => Just("ü".to_string()), 1 => Just("$X".to_string()), 1 => Just("@foo".to_string()), 1 => Just("@".to_string()), 1 => Just("@@x".to_string()), 1 => Just("a@b".to_string()), 1 => Just("*".to_string()), 1 => Just("'q'".to_string())], 1..5))
				.prop_map(|(no_shell, shell_opts, mut words)| {
					if words[0].starts_with('-') || words[0].is_empty() {
						words[0] = "w".into();
					}
					CliCase { no_shell, shell_opts: shell_opts.into_iter().map(|o| format!("-{o}")).collect(), words }
				})
				.boxed()
		},
		&run_cli,
	);
}
