//! C02 — debounce: one action per window, never before the window has elapsed; urgent events
//! flush; no starvation by rejected events.

use proptest::prelude::*;
use serde::{Deserialize, Serialize};

use crate::{
	engine::{Engine, LegOpts, Outcome},
	wxrun::{run as run_scenario, Ev, Run, Scenario, QUIT_ID},
};

#[derive(Clone, Debug, Serialize, Deserialize)]
pub struct C02Case {
	/// generated arrival pattern (label only; the scenario is self-contained)
	pub pattern: String,
	pub sc: Scenario,
}

const SLACK_US: u64 = 250_000;

fn throttle_min_max(sc: &Scenario, r: &Run, from_us: u64, to_us: u64) -> (u64, u64) {
	let t0 = u64::from(sc.throttle);
	match (sc.throttle_change, r.throttle_changed_us) {
		(Some((_, t1)), Some(at)) => {
			let t1 = u64::from(t1);
			// generous: the change takes effect somewhere around `at`
			if at + 5_000 < from_us {
				(t1, t1)
			} else if at > to_us + 5_000 {
				(t0, t0)
			} else {
				(t0.min(t1), t0.max(t1))
			}
		}
		(Some((_, t1)), None) => (t0.min(u64::from(t1)), t0.max(u64::from(t1))),
		_ => (t0, t0),
	}
}

pub fn run(c: &C02Case) -> Outcome {
	let mut o = Outcome::pass();
	let sc = &c.sc;
	let r = run_scenario(sc, None);
	o.label(format!("pattern:{}", c.pattern));
	let dump = || format!("\ncase: {c:?}\nsent: {:?}\nbatches: {:?}\nthrottle changed at {:?}\nmain: {}", r.sent, r.batches, r.throttle_changed_us, r.main_result);
	let by_id = |id: u32| r.sent.iter().find(|s| s.id == id);
	let mut multi = false;
	for (bi, b) in r.batches.iter().enumerate() {
		if b.ids.contains(&Some(QUIT_ID)) {
			continue;
		}
		if b.ids.len() >= 2 {
			multi = true;
		}
		let members: Vec<&crate::wxrun::Sent> = b.ids.iter().flatten().filter_map(|id| by_id(*id)).collect();
		// an empty event carries no id: if any urgent empty event was sent, a batch holding an
		// anonymous member may have been flushed by it
		let anon_urgent = b.ids.contains(&None) && r.sent.iter().any(|s| s.shape == 4 && s.prio == 3);
		let has_urgent = anon_urgent || members.iter().any(|m| m.prio == 3);
		let Some(first) = b.ids.first().and_then(|i| *i).and_then(by_id) else { continue };
		let (tmin, tmax) = throttle_min_max(sc, &r, first.before_us, b.entry_us);
		if !has_urgent {
			// (a) never before the window has elapsed — one-sided, a stall cannot violate it
			if b.entry_us < first.before_us + tmin * 1000 {
				o.fail(
					"delivered-before-window-elapsed",
					format!(
						"batch {bi} handed over {} µs after its first event was sent, throttle in effect {tmin} ms{}",
						b.entry_us - first.before_us,
						dump()
					),
				);
				return o;
			}
			// bounded delay after the window ends (handler idle scenarios only)
			if sc.handler_ms == 0 {
				let prev_exit = if bi > 0 { r.batches[bi - 1].exit_us } else { 0 };
				let limit = first.after_us.max(prev_exit) + tmax * 1000 + SLACK_US;
				if b.entry_us > limit {
					let rejected_stream = r.sent.iter().any(|s| s.verdict != 0 && s.before_us > first.before_us && s.before_us < b.entry_us);
					o.fail(
						if rejected_stream { "starved-by-rejected-events" } else { "delivered-late" },
						format!(
							"batch {bi} handed over {} µs after its first event was sent, throttle {tmax} ms (+{} ms slack){}",
							b.entry_us - first.after_us,
							SLACK_US / 1000,
							dump()
						),
					);
					return o;
				}
			}
		} else if sc.handler_ms == 0 {
			// (c) urgent flush
			let Some(u) = members.iter().find(|m| m.prio == 3) else { continue };
			let prev_exit = if bi > 0 { r.batches[bi - 1].exit_us } else { 0 };
			if b.entry_us > u.after_us.max(prev_exit) + SLACK_US {
				o.fail("urgent-not-flushed", format!("urgent event {} handled {} µs after it was sent{}", u.id, b.entry_us - u.after_us, dump()));
				return o;
			}
		}
		// (b) one batch per window
		let t = u64::from(sc.throttle);
		if !has_urgent && sc.throttle_change.is_none() && t >= 100 && sc.handler_ms == 0 && r.sent.len() <= 16 {
			let margin = (t * 1000 / 4).max(25_000);
			for s in &r.sent {
				if s.ok && s.verdict == 0 && s.prio != 3 && s.shape != 4 && s.before_us >= first.before_us && s.after_us + margin < first.before_us + t * 1000 && !b.ids.contains(&Some(s.id)) {
					// it must not have been delivered in a *later* batch
					if r.batches[bi + 1..].iter().any(|b2| b2.ids.contains(&Some(s.id))) {
						o.fail(
							"window-split",
							format!("event {} was sent {} µs into the {t} ms window of batch {bi} but was delivered in a later batch{}", s.id, s.after_us - first.before_us, dump()),
						);
						return o;
					}
				}
			}
		}
	}
	// (e) T = 0: nothing waits for another event
	if sc.throttle == 0 && sc.throttle_change.is_none() && sc.handler_ms == 0 {
		for s in &r.sent {
			if s.ok && (s.verdict == 0 || s.prio == 3) && s.shape != 4 {
				if let Some(b) = r.batches.iter().find(|b| b.ids.contains(&Some(s.id))) {
					if b.entry_us > s.after_us + SLACK_US {
						o.fail("zero-throttle-waits", format!("throttle 0: event {} delivered {} µs after it was sent{}", s.id, b.entry_us - s.after_us, dump()));
						return o;
					}
				}
			}
		}
	}
	if multi {
		o.label("multi-member-batch");
	}
	o.nontrivial = multi || matches!(c.pattern.as_str(), "straddle" | "urgent-in-window" | "rejected-stream" | "throttle-change" | "accepted-stream");
	// conservation still holds
	super::c01::ledger(sc, &r, &mut o);
	o
}

fn pass(gap: u16) -> Ev {
	Ev { gap, prio: 1, verdict: 0, shape: 0 }
}

fn strategy() -> BoxedStrategy<C02Case> {
	let base = |throttle: u32, evs: Vec<Ev>| Scenario {
		throttle,
		chan: 4096,
		err_chan: 64,
		handler_async: false,
		handler_ms: 0,
		producers: vec![evs],
		err_kind: 0,
		err_j: 0,
		replace_action_at: 0,
		throttle_change: None,
	};
	let t_big = prop_oneof![Just(100u32), Just(160), Just(240), Just(300)];
	prop_oneof![
		// single event
		1 => prop_oneof![Just(0u32), Just(1), Just(5), Just(30), Just(120)].prop_map(move |t| C02Case { pattern: "single".into(), sc: base(t, vec![pass(5)]) }),
		// burst inside the window
		2 => (t_big.clone(), 2usize..8).prop_map(move |(t, n)| {
			let step = (t as u16 / 2) / n as u16;
			C02Case { pattern: "burst-in-window".into(), sc: base(t, (0..n).map(|k| pass(if k == 0 { 5 } else { step })).collect()) }
		}),
		// straddling the window end: one clearly inside, one clearly after
		2 => (t_big.clone(), 25u16..60).prop_map(move |(t, d)| C02Case {
			pattern: "straddle".into(),
			sc: base(t, vec![pass(5), pass(t as u16 - d - (t as u16 / 4).max(25)), pass(2 * d + (t as u16 / 4).max(25) + 40)]),
		}),
		// continuous accepted stream for 3T
		2 => t_big.clone().prop_map(move |t| {
			let period = (t / 10) as u16;
			C02Case { pattern: "accepted-stream".into(), sc: base(t, (0..30).map(|k| pass(if k == 0 { 5 } else { period })).collect()) }
		}),
		// continuous rejected (or erroring) stream for 6T right after one accepted event
		3 => (t_big.clone(), any::<bool>()).prop_map(move |(t, err)| {
			let period = (t / 12).max(1) as u16;
			let mut evs = vec![pass(5)];
			for _ in 0..72 {
				evs.push(Ev { gap: period, prio: 1, verdict: if err { 2 } else { 1 }, shape: 0 });
			}
			C02Case { pattern: "rejected-stream".into(), sc: base(t, evs) }
		}),
		// urgent event inside a long window
		2 => (prop_oneof![Just(600u32), Just(1200), Just(2000)], 10u16..300, any::<bool>()).prop_map(move |(t, off, low_first)| C02Case {
			pattern: "urgent-in-window".into(),
			sc: base(t, vec![Ev { gap: 5, prio: if low_first { 0 } else { 1 }, verdict: 0, shape: 1 }, Ev { gap: off, prio: 3, verdict: 1, shape: 0 }]),
		}),
		// zero throttle
		1 => (1usize..6).prop_map(move |n| C02Case { pattern: "zero-throttle".into(), sc: base(0, (0..n).map(|_| pass(20)).collect()) }),
		// throttle changed at run time, inside a window
		2 => (prop_oneof![Just((300u32, 60u32)), Just((60, 300)), Just((0, 200)), Just((200, 0))], 10u16..50).prop_map(move |((a, b2), at)| {
			let mut sc = base(a, vec![pass(30), pass(20), pass(400), pass(10)]);
			sc.throttle_change = Some((30 + at, b2));
			C02Case { pattern: "throttle-change".into(), sc }
		}),
		// throttle changed while idle, then a burst
		1 => prop_oneof![Just((20u32, 300u32)), Just((300, 20))].prop_map(move |(a, b2)| {
			let mut sc = base(a, vec![pass(5), pass(500), pass(30)]);
			sc.throttle_change = Some((250, b2));
			C02Case { pattern: "throttle-change".into(), sc }
		}),
		// mixed priorities and handler durations on top of the C01 generator (lower bound only)
		2 => super::c01::scenario(false).prop_map(|sc| C02Case { pattern: "mixed".into(), sc }),
	]
	.boxed()
}

pub fn check(e: &Engine) {
	e.assume("real time: the lower bound (never before the window elapsed) is one-sided and always asserted; upper bounds use 250 ms of slack, only in scenarios whose handler returns at once, and must reproduce 3 times to count");
	e.assume("'one batch per window' is asserted only for T >= 100 ms, <= 16 events and a margin of max(25 ms, T/4) before the window end");
	e.explore(
		"debounce",
		LegOpts::realtime(
			e.tier.pick(500, 10_000),
			48,
			"arrival patterns: single, burst inside the window, straddling its end, continuous accepted stream (3T), continuous rejected/erroring stream (6T) after one accepted event, urgent inside a 0.6-2 s window, zero throttle, throttle changed inside a window or while idle, mixed priorities with slow handlers; non-trivial = multi-member batch or one of the structured patterns",
		),
		&strategy,
		&run,
	);
	e.require_label("debounce", "multi-member-batch", 0.2);
}
