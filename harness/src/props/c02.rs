//! C02 — debounce: one action per window, never before the window has elapsed; urgent events
//! flush; no starvation by rejected events.

use proptest::prelude::*;
use serde::{Deserialize, Serialize};

use crate::{
	engine::{Engine, LegOpts, Outcome},
	wxrun::{run as run_scenario, Ev, Run, Scenario, QUIT_ID},
};

#[derive(Clone, Debug, Serialize, Deserialize)]
pub struct C02Case {
	/// generated arrival pattern (label only; the scenario is self-contained)
	pub pattern: String,
	pub sc: Scenario,
}

const SLACK_US: u64 = 250_000;

fn throttle_min_max(sc: &Scenario, r: &Run, from_us: u64, to_us: u64) -> (u64, u64) {
	let t0 = u64::from(sc.throttle);
	match (sc.throttle_change, r.throttle_changed_us) {
		(Some((_, t1)), Some(at)) => {
			let t1 = u64::from(t1);
			// generous: the change takes effect somewhere around `at`
			if at + 5_000 < from_us {
				(t1, t1)
			} else if at > to_us + 5_000 {
				(t0, t0)
			} else {
				(t0.min(t1), t0.max(t1))
			}
		}
		(Some((_, t1)), None) => (t0.min(u64::from(t1)), t0.max(u64::from(t1))),
		_ => (t0, t0),
	}
}

pub fn run(c: &C02Case) -> Outcome {
	let mut o = Outcome::pass();
	let sc = &c.sc;
	let r = run_scenario(sc, None);
	o.label(format!("pattern:{}", c.pattern));
	let dump = || format!("\ncase: {c:?}\nsent: {:?}\nbatches: {:?}\nthrottle changed at {:?}\nmain: {}", r.sent, r.batches, r.throttle_changed_us, r.main_result);
	let by_id = |id: u32| r.sent.iter().find(|s| s.id == id);
	let mut multi = false;
	for (bi, b) in r.batches.iter().enumerate() {
		if b.ids.contains(&Some(QUIT_ID)) {
			continue;
		}
		if b.ids.len() >= 2 {
			multi = true;
		}
		let members: Vec<&crate::wxrun::Sent> = b.ids.iter().flatten().filter_map(|id| by_id(*id)).collect();
		// an empty event carries no id: if any urgent empty event was sent, a batch holding an
		// anonymous member may have been flushed by it
		let anon_urgent = b.ids.contains(&None) && r.sent.iter().any(|s| s.shape == 4 && s.prio == 3);
		let has_urgent = anon_urgent || members.iter().any(|m| m.prio == 3);
		let Some(first) = b.ids.first().and_then(|i| *i).and_then(by_id) else { continue };
		let (mut tmin, tmax) = throttle_min_max(sc, &r, first.before_us, b.entry_us);
		// a throttle raised while the window is open: the hand-over is decided by reading the throttle just in
		// time, and no such reading can say "elapsed" before the old window has ended; if the new value was in
		// place (the setter had returned) before that point - counted from when the first event was *sent*, which
		// is before it was received - every such reading sees the new value. One-sided: a stall cannot violate it.
		if let (Some((_, t1)), Some(at)) = (sc.throttle_change, r.throttle_changed_us) {
			let (t0, t1) = (u64::from(sc.throttle), u64::from(t1));
			if t1 > t0 && at > first.before_us && at < first.before_us + t0 * 1000 {
				tmin = t1;
				o.label("throttle-raised-inside-the-window");
			}
		}
		if !has_urgent {
			// (a) never before the window has elapsed — one-sided, a stall cannot violate it
			if b.entry_us < first.before_us + tmin * 1000 {
				o.fail(
					"delivered-before-window-elapsed",
					format!(
						"batch {bi} handed over {} µs after its first event was sent, throttle in effect {tmin} ms{}",
						b.entry_us - first.before_us,
						dump()
					),
				);
				return o;
			}
			// bounded delay after the window ends (handler idle scenarios only)
			if sc.handler_ms == 0 {
				let prev_exit = if bi > 0 { r.batches[bi - 1].exit_us } else { 0 };
				let limit = first.after_us.max(prev_exit) + tmax * 1000 + SLACK_US;
				if b.entry_us > limit {
					let rejected_stream = r.sent.iter().any(|s| s.verdict != 0 && s.before_us > first.before_us && s.before_us < b.entry_us);
					o.fail(
						if rejected_stream { "starved-by-rejected-events" } else { "delivered-late" },
						format!(
							"batch {bi} handed over {} µs after its first event was sent, throttle {tmax} ms (+{} ms slack){}",
							b.entry_us - first.after_us,
							SLACK_US / 1000,
							dump()
						),
					);
					return o;
				}
			}
		} else if sc.handler_ms == 0 {
			// (c) urgent flush
			let Some(u) = members.iter().find(|m| m.prio == 3) else { continue };
			let prev_exit = if bi > 0 { r.batches[bi - 1].exit_us } else { 0 };
			if b.entry_us > u.after_us.max(prev_exit) + SLACK_US {
				o.fail("urgent-not-flushed", format!("urgent event {} handled {} µs after it was sent{}", u.id, b.entry_us - u.after_us, dump()));
				return o;
			}
		}
		// bounded delay, measured in work (schedule-independent): once the window — started when the
		// filter passed the batch's first member — has ended (+20 ms), the worker must hand the batch
		// over instead of consuming further rejected / erroring events; the unchanged worker takes at
		// most one more
		if !has_urgent && sc.throttle_change.is_none() {
			if let Some(&(_, started)) = r.asked_at.iter().find(|(id, _)| *id == first.id) {
				let end = started + tmax * 1000 + 20_000;
				let late: Vec<u32> = r
					.asked_at
					.iter()
					.filter(|(id, at)| *at > end && *at < b.entry_us && by_id(*id).map_or(false, |s| s.verdict != 0))
					.map(|(id, _)| *id)
					.collect();
				if late.len() >= 4 {
					o.fail(
						"starved-by-rejected-events",
						format!("batch {bi}: after its window had ended the worker consumed {} more rejected/erroring events ({late:?}) before handing it over{}", late.len(), dump()),
					);
					return o;
				}
			}
		}
		// (b) one batch per window
		let t = u64::from(sc.throttle);
		if !has_urgent && sc.throttle_change.is_none() && t >= 100 && sc.handler_ms == 0 && r.sent.len() <= 16 {
			let margin = (t * 1000 / 4).max(25_000);
			for s in &r.sent {
				if s.ok && s.verdict == 0 && s.prio != 3 && s.shape != 4 && s.before_us >= first.before_us && s.after_us + margin < first.before_us + t * 1000 && !b.ids.contains(&Some(s.id)) {
					// it must not have been delivered in a *later* batch
					if r.batches[bi + 1..].iter().any(|b2| b2.ids.contains(&Some(s.id))) {
						o.fail(
							"window-split",
							format!("event {} was sent {} µs into the {t} ms window of batch {bi} but was delivered in a later batch{}", s.id, s.after_us - first.before_us, dump()),
						);
						return o;
					}
				}
			}
		}
	}
	// (e) T = 0: nothing waits for another event
	if sc.throttle == 0 && sc.throttle_change.is_none() && sc.handler_ms == 0 {
		for s in &r.sent {
			if s.ok && (s.verdict == 0 || s.prio == 3) && s.shape != 4 {
				if let Some(b) = r.batches.iter().find(|b| b.ids.contains(&Some(s.id))) {
					if b.entry_us > s.after_us + SLACK_US {
						o.fail("zero-throttle-waits", format!("throttle 0: event {} delivered {} µs after it was sent{}", s.id, b.entry_us - s.after_us, dump()));
						return o;
					}
				}
			}
		}
	}
	if multi {
		o.label("multi-member-batch");
	}
	o.nontrivial = multi || matches!(c.pattern.as_str(), "straddle" | "urgent-in-window" | "rejected-stream" | "throttle-change" | "accepted-stream");
	// conservation still holds
	super::c01::ledger(sc, &r, &mut o);
	o
}

fn pass(gap: u16) -> Ev {
	Ev { gap, prio: 1, verdict: 0, shape: 0 }
}

fn strategy() -> BoxedStrategy<C02Case> {
	let base = |throttle: u32, evs: Vec<Ev>| Scenario {
		throttle,
		chan: 4096,
		err_chan: 64,
		handler_async: false,
		handler_ms: 0,
		producers: vec![evs],
		err_kind: 0,
		err_j: 0,
		replace_action_at: 0,
		throttle_change: None,
		empty_errs: false,
		throttle_via_field: false,
		job_churn: None,
	};
	let t_big = prop_oneof![Just(100u32), Just(160), Just(240), Just(300)];
	prop_oneof![
		// single event
		1 => prop_oneof![Just(0u32), Just(1), Just(5), Just(30), Just(120)].prop_map(move |t| C02Case { pattern: "single".into(), sc: base(t, vec![pass(5)]) }),
		// burst inside the window
		2 => (t_big.clone(), 2usize..8).prop_map(move |(t, n)| {
			let step = (t as u16 / 2) / n as u16;
			C02Case { pattern: "burst-in-window".into(), sc: base(t, (0..n).map(|k| pass(if k == 0 { 5 } else { step })).collect()) }
		}),
		// straddling the window end: one clearly inside, one clearly after
		2 => (t_big.clone(), 25u16..60).prop_map(move |(t, d)| C02Case {
			pattern: "straddle".into(),
			sc: base(t, vec![pass(5), pass(t as u16 - d - (t as u16 / 4).max(25)), pass(2 * d + (t as u16 / 4).max(25) + 40)]),
		}),
		// continuous accepted stream for 3T
		2 => t_big.clone().prop_map(move |t| {
			let period = (t / 10) as u16;
			C02Case { pattern: "accepted-stream".into(), sc: base(t, (0..30).map(|k| pass(if k == 0 { 5 } else { period })).collect()) }
		}),
		// continuous rejected (or erroring) stream for 6T right after one accepted event
		3 => (t_big.clone(), any::<bool>()).prop_map(move |(t, err)| {
			let period = (t / 12).max(1) as u16;
			let mut evs = vec![pass(5)];
			for _ in 0..72 {
				evs.push(Ev { gap: period, prio: 1, verdict: if err { 2 } else { 1 }, shape: 0 });
			}
			C02Case { pattern: "rejected-stream".into(), sc: base(t, evs) }
		}),
		// urgent event inside a long window
		2 => (prop_oneof![Just(600u32), Just(1200), Just(2000)], 10u16..300, any::<bool>()).prop_map(move |(t, off, low_first)| C02Case {
			pattern: "urgent-in-window".into(),
			sc: base(t, vec![Ev { gap: 5, prio: if low_first { 0 } else { 1 }, verdict: 0, shape: 1 }, Ev { gap: off, prio: 3, verdict: 1, shape: 0 }]),
		}),
		// zero throttle
		1 => (1usize..6).prop_map(move |n| C02Case { pattern: "zero-throttle".into(), sc: base(0, (0..n).map(|_| pass(20)).collect()) }),
		// throttle changed at run time, inside a window
		2 => (prop_oneof![Just((300u32, 60u32)), Just((60, 300)), Just((0, 200)), Just((200, 0))], 10u16..50).prop_map(move |((a, b2), at)| {
			let mut sc = base(a, vec![pass(30), pass(20), pass(400), pass(10)]);
			sc.throttle_change = Some((30 + at, b2));
			sc.throttle_via_field = at % 2 == 0;
			C02Case { pattern: "throttle-change".into(), sc }
		}),
		// throttle raised inside a window, then silence until the old window has ended
		2 => (prop_oneof![Just((100u32, 500u32)), Just((60, 300)), Just((150, 400))], 10u16..40, any::<bool>()).prop_map(move |((a, b2), at, field)| {
			// first event at 30 ms, the change 10-40 ms later, the next event after the old window but inside the new one
			let mut sc = base(a, vec![pass(30), pass((a + 60) as u16), pass(700)]);
			sc.throttle_change = Some((30 + at, b2));
			sc.throttle_via_field = field;
			C02Case { pattern: "throttle-raised-then-silence".into(), sc }
		}),
		// supervised jobs (created by the handler in its first invocation) end one after the other while batches
		// are under construction: a job task that ends is no event and must not move the window
		2 => (t_big.clone(), 15u16..60, 20u8..40).prop_map(move |(t, period, count)| {
			let mut sc = base(t, vec![pass(5), pass(t as u16 + 100), pass(t as u16 / 3), pass(t as u16 + 150), pass(20)]);
			sc.job_churn = Some((period, count));
			C02Case { pattern: "job-churn-in-window".into(), sc }
		}),
		// throttle changed while idle, then a burst
		1 => prop_oneof![Just((20u32, 300u32)), Just((300, 20))].prop_map(move |(a, b2)| {
			let mut sc = base(a, vec![pass(5), pass(500), pass(30)]);
			sc.throttle_change = Some((250, b2));
			sc.throttle_via_field = a < b2;
			C02Case { pattern: "throttle-change".into(), sc }
		}),
		// mixed priorities and handler durations on top of the C01 generator (lower bound only)
		2 => super::c01::scenario(false).prop_map(|sc| C02Case { pattern: "mixed".into(), sc }),
	]
	.boxed()
}

// ---------------------------------------------------------------------------------------------
// Saturating flood of rejected events from other threads

#[derive(Clone, Debug, Serialize, Deserialize)]
pub struct FloodCase {
	pub throttle: u16,
	pub flooders: u8,
	/// the flood starts this long before (negative: after) the accepted event is sent
	pub lead_ms: i16,
	/// event queue capacity
	pub chan: u16,
	/// number of accepted events sent close together at the start of the window
	pub accepted: u8,
}

const FLOOD_ID: u32 = 0x00f1_00d0;
const FLOOD_SLACK_MS: u64 = 600; // only sizes the flood duration

/// The filter doubles as the observer: it notes when the worker took the first accepted event (that is
/// when the window starts) and counts the rejected events the worker consumed after the window had
/// ended (plus 20 ms) while the batch was still undelivered. The unchanged worker consumes at most one.
#[derive(Debug)]
struct FloodFilter(std::sync::Arc<FloodState>);
#[derive(Debug)]
struct FloodState {
	t0: std::time::Instant,
	throttle_us: u64,
	acc_seen_us: std::sync::atomic::AtomicU64,
	delivered: std::sync::atomic::AtomicBool,
	late_asked: std::sync::atomic::AtomicU64,
}
impl watchexec::filter::Filterer for FloodFilter {
	fn check_event(&self, event: &watchexec_events::Event, _p: watchexec_events::Priority) -> Result<bool, watchexec::error::RuntimeError> {
		use std::sync::atomic::Ordering::SeqCst;
		let st = &self.0;
		let now = st.t0.elapsed().as_micros() as u64 + 1;
		if crate::wxrun::id_of(event) != Some(FLOOD_ID) {
			let _ = st.acc_seen_us.compare_exchange(0, now, SeqCst, SeqCst);
			return Ok(true);
		}
		let seen = st.acc_seen_us.load(SeqCst);
		if seen != 0 && now > seen + st.throttle_us + 20_000 && !st.delivered.load(SeqCst) {
			st.late_asked.fetch_add(1, SeqCst);
		}
		Ok(false)
	}
}

pub fn run_flood(c: &FloodCase) -> Outcome {
	use std::sync::{
		atomic::{AtomicBool, AtomicU64, Ordering},
		Arc, Mutex,
	};
	use std::time::{Duration, Instant};
	use watchexec_events::Priority;
	let mut o = Outcome::pass();
	let t = u64::from(c.throttle);
	// the flood goes on for this long after the accepted event: well past window + slack
	let flood_after = t + FLOOD_SLACK_MS + 700;
	let rt = tokio::runtime::Builder::new_multi_thread().worker_threads(4).enable_all().build().unwrap();
	struct Obs {
		sent_before_us: u64,
		sent_after_us: u64,
		entries: Vec<(u64, Vec<Option<u32>>)>,
		flood_sent: u64,
		flood_end_us: u64,
		main: String,
		late_asked: u64,
		acc_seen_us: u64,
	}
	let obs: Obs = rt.block_on(async {
		let t0 = Instant::now();
		let us = move || t0.elapsed().as_micros() as u64;
		let mut config = watchexec::Config::default();
		config.event_channel_size = usize::from(c.chan.max(1));
		config.throttle(Duration::from_millis(t));
		let st = Arc::new(FloodState {
			t0,
			throttle_us: t * 1000,
			acc_seen_us: AtomicU64::new(0),
			delivered: AtomicBool::new(false),
			late_asked: AtomicU64::new(0),
		});
		config.filterer(FloodFilter(st.clone()));
		let entries: Arc<Mutex<Vec<(u64, Vec<Option<u32>>)>>> = Arc::new(Mutex::new(Vec::new()));
		{
			let entries = entries.clone();
			let st2 = st.clone();
			config.on_action(move |mut action| {
				let ids: Vec<Option<u32>> = action.events.iter().map(crate::wxrun::id_of).collect();
				let quit = ids.contains(&Some(QUIT_ID));
				if ids.contains(&Some(0)) {
					st2.delivered.store(true, Ordering::SeqCst);
				}
				entries.lock().unwrap().push((us(), ids));
				if quit {
					action.quit();
				}
				action
			});
		}
		let wx = Arc::new(watchexec::Watchexec::with_config(config).expect("with_config"));
		let mut main = wx.main();
		let stop = Arc::new(AtomicBool::new(false));
		let flood_sent = Arc::new(AtomicU64::new(0));
		let start_flood = |wx: Arc<watchexec::Watchexec>| {
			let mut hs = Vec::new();
			for _ in 0..c.flooders.clamp(1, 3) {
				let wx = wx.clone();
				let stop = stop.clone();
				let flood_sent = flood_sent.clone();
				hs.push(tokio::spawn(async move {
					let mut n = 0u64;
					while !stop.load(Ordering::Relaxed) {
						if wx.send_event(crate::wxrun::make_event(FLOOD_ID, 1), Priority::Normal).await.is_err() {
							break;
						}
						n += 1;
						if n % 64 == 0 {
							tokio::task::yield_now().await;
						}
					}
					flood_sent.fetch_add(n, Ordering::SeqCst);
				}));
			}
			hs
		};
		let mut hs = Vec::new();
		if c.lead_ms >= 0 {
			hs = start_flood(wx.clone());
			tokio::time::sleep(Duration::from_millis(c.lead_ms as u64)).await;
		}
		let sent_before_us = us();
		for k in 0..u32::from(c.accepted.clamp(1, 4)) {
			let _ = wx.send_event(crate::wxrun::make_event(k, 0), Priority::Normal).await;
		}
		let sent_after_us = us();
		if c.lead_ms < 0 {
			tokio::time::sleep(Duration::from_millis(u64::from(c.lead_ms.unsigned_abs()))).await;
			hs = start_flood(wx.clone());
		}
		// keep flooding until the batch has been delivered and then some, or until the budget is used up
		let until = Instant::now() + Duration::from_millis(flood_after);
		while Instant::now() < until {
			tokio::time::sleep(Duration::from_millis(5)).await;
		}
		stop.store(true, Ordering::SeqCst);
		let flood_end_us = us();
		for h in hs {
			let _ = h.await;
		}
		tokio::time::sleep(Duration::from_millis(2 * t + 100)).await;
		let _ = tokio::time::timeout(Duration::from_secs(2), wx.send_event(crate::wxrun::make_event(QUIT_ID, 0), Priority::Urgent)).await;
		let main = match tokio::time::timeout(Duration::from_secs(5), &mut main).await {
			Err(_) => {
				main.abort();
				"hang".to_string()
			}
			Ok(Ok(Ok(()))) => "ok".to_string(),
			Ok(other) => format!("{other:?}"),
		};
		let e = entries.lock().unwrap().clone();
		Obs {
			sent_before_us,
			sent_after_us,
			entries: e,
			flood_sent: flood_sent.load(Ordering::SeqCst),
			flood_end_us,
			main,
			late_asked: st.late_asked.load(Ordering::SeqCst),
			acc_seen_us: st.acc_seen_us.load(Ordering::SeqCst),
		}
	});
	rt.shutdown_timeout(std::time::Duration::from_millis(200));
	let dump = || {
		format!(
			"\ncase {c:?}\naccepted events sent at {}..{} µs, first one taken by the worker at {} µs; handler entries {:?}; {} rejected events sent until {} µs, {} of them consumed by the worker later than 20 ms after the window had ended and before the batch was delivered; main: {}",
			obs.sent_before_us, obs.sent_after_us, obs.acc_seen_us, obs.entries, obs.flood_sent, obs.flood_end_us, obs.late_asked, obs.main
		)
	};
	o.nontrivial = obs.flood_sent > 1000;
	if obs.flood_sent > 1000 {
		o.label("flood>1000-events");
	}
	if obs.main != "ok" {
		o.fail("flood:main-did-not-end-cleanly", format!("main task: {}{}", obs.main, dump()));
		return o;
	}
	let first = obs.entries.iter().find(|(_, ids)| ids.contains(&Some(0)));
	match first {
		None => {
			o.fail("flood:accepted-event-never-delivered", format!("no batch holds the accepted event{}", dump()));
		}
		Some((at, ids)) => {
			if ids.contains(&Some(FLOOD_ID)) {
				o.fail("flood:rejected-event-delivered", format!("a rejected event was handed to the handler{}", dump()));
			} else if *at < obs.sent_before_us + t * 1000 {
				o.fail("delivered-before-window-elapsed", format!("batch handed over {} µs after its first event was sent, throttle {t} ms{}", at - obs.sent_before_us, dump()));
			} else if obs.late_asked >= 50 {
				o.fail(
					"starved-by-rejected-events",
					format!("after the window had ended the worker went on consuming {} rejected events before it handed the batch over ({} µs after its first event was sent, throttle {t} ms){}", obs.late_asked, at - obs.sent_after_us, dump()),
				);
			}
		}
	}
	o
}

// ---------------------------------------------------------------------------------------------
// Extreme throttle values: "for all throttle durations"

#[derive(Clone, Debug, Serialize, Deserialize)]
pub struct ExtremeCase {
	/// 0 Duration::MAX, 1 from_secs(u64::MAX), 2 from_secs(2^40), 3 one hour, 4 from_nanos(1)
	pub throttle: u8,
	/// set through Config::throttle after start-up instead of before
	pub at_run_time: bool,
	pub normals: u8,
	pub urgent_after_ms: u16,
}

fn extreme_duration(k: u8) -> std::time::Duration {
	use std::time::Duration;
	match k % 5 {
		0 => Duration::MAX,
		1 => Duration::from_secs(u64::MAX),
		2 => Duration::from_secs(1 << 40),
		3 => Duration::from_secs(3600),
		_ => Duration::from_nanos(1),
	}
}

pub fn run_extreme(c: &ExtremeCase) -> Outcome {
	use std::sync::{Arc, Mutex};
	use std::time::{Duration, Instant};
	use watchexec_events::Priority;
	let mut o = Outcome::pass();
	o.nontrivial = true;
	let d = extreme_duration(c.throttle);
	let long = c.throttle % 5 != 4;
	o.label(format!("throttle:{}", ["Duration::MAX", "u64::MAX s", "2^40 s", "1 h", "1 ns"][(c.throttle % 5) as usize]));
	let rt = tokio::runtime::Builder::new_multi_thread().worker_threads(2).enable_all().build().unwrap();
	let (entries, main_state, t_urgent_us): (Vec<(u64, Vec<Option<u32>>)>, String, u64) = rt.block_on(async {
		let t0 = Instant::now();
		let us = move || t0.elapsed().as_micros() as u64;
		let config = watchexec::Config::default();
		if !c.at_run_time {
			config.throttle(d);
		}
		let entries: Arc<Mutex<Vec<(u64, Vec<Option<u32>>)>>> = Arc::new(Mutex::new(Vec::new()));
		{
			let entries = entries.clone();
			config.on_action(move |mut action| {
				let ids: Vec<Option<u32>> = action.events.iter().map(crate::wxrun::id_of).collect();
				let quit = ids.contains(&Some(QUIT_ID));
				entries.lock().unwrap().push((us(), ids));
				if quit {
					action.quit();
				}
				action
			});
		}
		let wx = watchexec::Watchexec::with_config(config).expect("with_config");
		let mut main = wx.main();
		if c.at_run_time {
			tokio::time::sleep(Duration::from_millis(20)).await;
			wx.config.throttle(d);
			tokio::time::sleep(Duration::from_millis(20)).await;
		}
		for k in 0..u32::from(c.normals.clamp(1, 3)) {
			let _ = wx.send_event(crate::wxrun::make_event(k, 0), Priority::Normal).await;
			tokio::time::sleep(Duration::from_millis(5)).await;
		}
		tokio::time::sleep(Duration::from_millis(u64::from(c.urgent_after_ms))).await;
		let t_urgent_us = us();
		let _ = wx.send_event(crate::wxrun::make_event(100, 0), Priority::Urgent).await;
		// wait for the flush (bounded), watching the main task
		let until = Instant::now() + Duration::from_secs(3);
		let mut main_state = "running".to_string();
		while Instant::now() < until {
			if entries.lock().unwrap().iter().any(|(_, ids)| ids.contains(&Some(100))) {
				break;
			}
			if main.is_finished() {
				main_state = format!("ended by itself: {:?}", (&mut main).await);
				break;
			}
			tokio::time::sleep(Duration::from_millis(5)).await;
		}
		if main_state == "running" {
			let _ = tokio::time::timeout(Duration::from_secs(2), wx.send_event(crate::wxrun::make_event(QUIT_ID, 0), Priority::Urgent)).await;
			if tokio::time::timeout(Duration::from_secs(5), &mut main).await.is_err() {
				main.abort();
				main_state = "hang".into();
			}
		}
		let e = entries.lock().unwrap().clone();
		(e, main_state, t_urgent_us)
	});
	rt.shutdown_timeout(Duration::from_millis(200));
	let dump = || format!("\ncase {c:?} (throttle {d:?})\nurgent sent at {t_urgent_us} µs; handler entries {entries:?}; main: {main_state}");
	if main_state != "running" {
		o.fail("extreme-throttle:main-ended-or-hung", format!("the main task did not survive until the quit: {main_state}{}", dump()));
		return o;
	}
	let Some((at, ids)) = entries.iter().find(|(_, ids)| ids.contains(&Some(100))) else {
		o.fail("urgent-not-flushed", format!("the urgent event was not handed over within 3 s{}", dump()));
		return o;
	};
	if long {
		// nothing can have been delivered before the urgent event, and it flushes everything pending
		if let Some((_, early)) = entries.iter().find(|(t, _)| *t < t_urgent_us) {
			o.fail("delivered-before-window-elapsed", format!("batch {early:?} handed over before the urgent event although the window is practically infinite{}", dump()));
			return o;
		}
		for k in 0..u32::from(c.normals.clamp(1, 3)) {
			if !ids.contains(&Some(k)) {
				o.fail("urgent-flush-incomplete", format!("event {k} was pending when the urgent event arrived but is not in the flushed batch{}", dump()));
				return o;
			}
		}
	}
	if *at > t_urgent_us + 2_000_000 {
		o.fail("urgent-not-flushed", format!("urgent event handled {} µs after it was sent{}", at - t_urgent_us, dump()));
	}
	o
}

fn extreme_strategy() -> BoxedStrategy<ExtremeCase> {
	(0u8..5, any::<bool>(), 1u8..4, prop_oneof![Just(0u16), Just(20), Just(120)])
		.prop_map(|(throttle, at_run_time, normals, urgent_after_ms)| ExtremeCase { throttle, at_run_time, normals, urgent_after_ms })
		.boxed()
}

fn flood_strategy() -> BoxedStrategy<FloodCase> {
	(
		prop_oneof![Just(0u16), Just(30), Just(100), Just(250)],
		prop_oneof![1 => Just(1u8), 2 => Just(2), 4 => Just(3)],
		prop_oneof![Just(-20i16), Just(0), Just(30), Just(150)],
		prop_oneof![1 => Just(1u16), 1 => Just(16), 3 => Just(1024), 3 => Just(4096), 2 => Just(16384)],
		1u8..4,
	)
		.prop_map(|(throttle, flooders, lead_ms, chan, accepted)| FloodCase { throttle, flooders, lead_ms, chan, accepted })
		.boxed()
}

pub fn check(e: &Engine) {
	e.assume("real time: the lower bound (never before the window elapsed) is one-sided and always asserted; upper bounds use 250 ms of slack, only in scenarios whose handler returns at once, and must reproduce 3 times to count");
	e.assume("'one batch per window' is asserted only for T >= 100 ms, <= 16 events and a margin of max(25 ms, T/4) before the window end");
	e.explore(
		"debounce",
		LegOpts::realtime(
			e.tier.pick(500, 10_000),
			48,
			"arrival patterns: single, burst inside the window, straddling its end, continuous accepted stream (3T), continuous rejected/erroring stream (6T) after one accepted event, urgent inside a 0.6-2 s window, zero throttle, throttle changed inside a window or while idle (through Config::throttle or, half of the time, through the public field without a change signal), mixed priorities with slow handlers; non-trivial = multi-member batch or one of the structured patterns",
		),
		&strategy,
		&run,
	);
	e.require_label("debounce", "multi-member-batch", 0.2);
	e.explore(
		"rejected-flood",
		LegOpts {
			cases: e.tier.pick(16, 400),
			shards: 4,
			threads: 4,
			confirm: 3,
			max_shrink_iters: 8,
			rule: "1-3 accepted events, then (or already before) 1-3 tasks on other worker threads send rejected events as fast as the queue takes them (capacity 1-16384) until well past the window: the batch must be handed over no earlier than the throttle, and 'within a bounded delay' is measured in work, not in wall-clock time, so that machine load cannot fake it: the recording filter counts the rejected events the worker consumes later than 20 ms after the window (started when the worker took the first accepted event) has ended and before the batch is delivered; the worker must not consume 50 or more (the unchanged worker consumes at most one); non-trivial = more than 1000 rejected events were sent",
			confirm_any: &[],
		},
		&flood_strategy,
		&run_flood,
	);
	e.require_label("rejected-flood", "flood>1000-events", 0.8);
	e.explore(
		"extreme-throttle",
		LegOpts::realtime(
			e.tier.pick(40, 400),
			8,
			"throttle Duration::MAX / u64::MAX s / 2^40 s / 1 h / 1 ns, set before start or at run time; 1-3 accepted events, then an urgent one 0-120 ms later: nothing is handed over before the urgent event (long windows), the urgent event flushes everything pending within 2 s, the main task neither ends nor hangs",
		),
		&extreme_strategy,
		&run_extreme,
	);
}
