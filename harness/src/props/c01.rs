//! C01 — accepted events reach the action handler exactly once; rejected ones never; no empty batch.
//!
//! Conservation ledger over a full in-process Watchexec (real time). Every assertion is about
//! *what* was delivered, never about *when*, so a stall cannot produce a false alarm; the only
//! time bound is the generous quiescence wait before the quit is requested.

use std::collections::HashMap;

use proptest::prelude::*;

use crate::{
	engine::{Engine, LegOpts, Outcome},
	wxrun::{run as run_scenario, Ev, Run, Scenario, QUIT_ID},
};

pub fn ledger(sc: &Scenario, r: &Run, o: &mut Outcome) {
	let dump = || format!("\nscenario: {sc:?}\nsent: {:?}\nbatches: {:?}\nasked: {:?}\nerrors: {:?}\nmain: {} quiesced: {}", r.sent, r.batches, r.asked, r.errors, r.main_result, r.quiesced);
	// (5) no empty batch
	if let Some((i, _)) = r.batches.iter().enumerate().find(|(_, b)| b.ids.is_empty()) {
		o.fail("empty-batch", format!("action handler invoked with an empty batch (#{i}){}", dump()));
		return;
	}
	let mut delivered: HashMap<Option<u32>, usize> = HashMap::new();
	for b in &r.batches {
		for id in &b.ids {
			*delivered.entry(*id).or_default() += 1;
		}
	}
	// (3) nothing twice
	if let Some((id, n)) = delivered.iter().find(|(id, n)| id.is_some() && **n > 1) {
		o.fail("delivered-twice", format!("event {id:?} was handed to the handler {n} times{}", dump()));
		return;
	}
	let by_id: HashMap<u32, &crate::wxrun::Sent> = r.sent.iter().map(|s| (s.id, s)).collect();
	// (2) rejected / errored never delivered; nothing invented
	for id in delivered.keys().flatten() {
		if *id == QUIT_ID {
			continue;
		}
		match by_id.get(id) {
			None => {
				o.fail("delivered-unknown-event", format!("handler saw event {id} that was never sent{}", dump()));
				return;
			}
			Some(s) => {
				if s.verdict != 0 && s.prio != 3 {
					o.fail(
						if s.verdict == 1 { "rejected-event-delivered" } else { "errored-event-delivered" },
						format!("event {id} (verdict {}) was handed to the handler{}", s.verdict, dump()),
					);
					return;
				}
			}
		}
	}
	let empties_sent = r.sent.iter().filter(|s| s.ok && s.shape == 4).count();
	let empties_seen = delivered.get(&None).copied().unwrap_or(0);
	if empties_seen > empties_sent {
		o.fail("empty-event-duplicated", format!("{empties_seen} empty events delivered, {empties_sent} sent{}", dump()));
		return;
	}
	// (4) urgent and empty events bypass the filter; others are asked about at most once
	let mut asked: HashMap<u32, usize> = HashMap::new();
	for id in &r.asked {
		*asked.entry(*id).or_default() += 1;
	}
	for (id, n) in &asked {
		if *id == QUIT_ID {
			o.fail("urgent-event-filtered", format!("the urgent quit event went through the filter{}", dump()));
			return;
		}
		if let Some(s) = by_id.get(id) {
			if s.prio == 3 {
				o.fail("urgent-event-filtered", format!("urgent event {id} went through the filter{}", dump()));
				return;
			}
		}
		if *n > 1 {
			o.fail("filter-asked-twice", format!("filter asked {n} times about event {id}{}", dump()));
			return;
		}
	}
	// (1) everything owed was delivered exactly once — only if the run was not cut short
	if r.main_result == "ok" {
		if !r.quiesced {
			let missing: Vec<u32> = r
				.sent
				.iter()
				.filter(|s| s.ok && s.shape != 4 && (s.verdict == 0 || s.prio == 3) && !delivered.contains_key(&Some(s.id)))
				.map(|s| s.id)
				.collect();
			let unasked: Vec<u32> = r.sent.iter().filter(|s| s.ok && s.shape != 4 && s.prio != 3 && !asked.contains_key(&s.id)).map(|s| s.id).collect();
			let sig = if !missing.is_empty() {
				"accepted-event-never-delivered"
			} else if empties_seen < empties_sent {
				"empty-event-never-delivered"
			} else if !unasked.is_empty() {
				"event-never-reached-the-filter"
			} else {
				"error-never-reached-the-handler"
			};
			o.fail(sig, format!("not everything owed arrived before the quit was requested: missing {missing:?}, empties {empties_seen}/{empties_sent}, not filtered {unasked:?}{}", dump()));
		}
	} else if r.main_result == "hang" {
		o.fail("main-did-not-end-after-quit", format!("main task did not finish within 5 s of the quit{}", dump()));
	}
}

pub fn labels(sc: &Scenario, r: &Run, o: &mut Outcome) {
	let n_batches = r.batches.len();
	let mut between = false;
	for b in &r.batches {
		let _ = b;
	}
	// a rejected/errored event sent between two accepted ones
	let mut all: Vec<&crate::wxrun::Sent> = r.sent.iter().collect();
	all.sort_by_key(|s| s.before_us);
	for w in all.windows(3) {
		if w[0].verdict == 0 && w[1].verdict != 0 && w[2].verdict == 0 {
			between = true;
		}
	}
	let during_handler = r.sent.iter().any(|s| r.batches.iter().any(|b| b.exit_us > b.entry_us && s.before_us > b.entry_us && s.before_us < b.exit_us));
	let small_queue = sc.chan <= 2 && sc.producers.len() > 2;
	if between {
		o.label("reject-between-accepts");
	}
	if during_handler {
		o.label("sent-while-handler-running");
	}
	if small_queue {
		o.label("small-queue-many-producers");
	}
	if n_batches >= 2 {
		o.label("2+batches");
	}
	o.nontrivial = n_batches >= 2 && (between || during_handler || small_queue);
}

pub fn run(sc: &Scenario) -> Outcome {
	let mut o = Outcome::pass();
	let r = run_scenario(sc, None);
	labels(sc, &r, &mut o);
	ledger(sc, &r, &mut o);
	o
}

pub fn ev(throttle: u32, errors: bool) -> impl Strategy<Value = Ev> {
	let t = throttle.max(1) as u16;
	let gap = prop_oneof![4 => Just(0u16), 3 => 0u16..5, 2 => Just(t / 2), 2 => Just(t.saturating_sub(3)), 2 => Just(t + 3), 1 => Just(t * 2), 1 => 0u16..60];
	let verdict = if errors { prop_oneof![5 => Just(0u8), 3 => Just(1u8), 2 => Just(2u8)].boxed() } else { prop_oneof![5 => Just(0u8), 3 => Just(1u8)].boxed() };
	(gap, prop_oneof![1 => Just(0u8), 6 => Just(1u8), 2 => Just(2u8), 1 => Just(3u8)], verdict, prop_oneof![4 => Just(0u8), 2 => Just(1u8), 1 => Just(2u8), 1 => Just(3u8), 1 => Just(4u8)])
		.prop_map(|(gap, prio, verdict, shape)| Ev { gap, prio, verdict, shape })
}

pub fn scenario(errors: bool) -> BoxedStrategy<Scenario> {
	prop_oneof![Just(0u32), Just(1), Just(5), Just(20), Just(50), Just(120)]
		.prop_flat_map(move |throttle| {
			(
				Just(throttle),
				prop_oneof![Just(1u32), Just(2), Just(8), Just(4096)],
				any::<bool>(),
				prop_oneof![3 => Just(0u16), 2 => 1u16..10, 2 => 10u16..80],
				proptest::collection::vec(proptest::collection::vec(ev(throttle, errors), 1..12), 1..5),
			)
		})
		.prop_map(|(throttle, chan, handler_async, handler_ms, producers)| Scenario {
			throttle,
			chan,
			err_chan: 64,
			handler_async,
			handler_ms,
			producers,
			err_kind: 0,
			err_j: 0,
			replace_action_at: 0,
			throttle_change: None,
		})
		.boxed()
}

pub fn check(e: &Engine) {
	e.assume("real time, in-process Watchexec on a 2-worker runtime per scenario; all ledger assertions are schedule-independent; the quit is requested only after everything owed has arrived or a 1.5 s + 3 x throttle wait has expired (a violation only if it reproduces 3 times)");
	e.assume("events sent concurrently with or after the quit are outside the property ('until a quit is requested')");
	e.explore(
		"ledger",
		LegOpts::realtime(
			e.tier.pick(3_000, 60_000),
			48,
			"1-4 producer tasks x 1-11 events (priority low..urgent, verdict pass/reject/error, tag shapes process/path/signal/keyboard-EOF/empty) with gaps placed relative to the throttle (inside the window, straddling its end, beyond), throttle 0-120 ms, queue size 1/2/8/4096, sync or async handler taking 0-80 ms; conservation ledger; non-trivial = >=2 batches and (reject between accepts | event sent while the handler ran | queue <=2 with >2 producers)",
		),
		&|| scenario(true),
		&run,
	);
	e.explore(
		"real-fs",
		LegOpts::realtime(e.tier.pick(48, 1_200), 8, "real native and poll(40 ms) watchers on a scratch tree: create / write / rename / remove / mkdir in directly and deeply nested places, path set (3 dirs incl. a nested one, recursive or not) changed at run time; every change under a configured path must be named by a delivered event within 2.5 s, nothing outside the tree is reported; non-trivial = >=2 asserted changes"),
		&super::realfs::strategy,
		&super::realfs::run,
	);
	e.explore(
		"real-sources",
		LegOpts::realtime(
			e.tier.pick(64, 1_500),
			16,
			"a separate probe process (library Watchexec with the real signal and keyboard sources) receives 1-8 generated steps: OS signals HUP/INT/QUIT/TERM/USR1/USR2 (the same kind never twice within 300 ms: standard signals do not queue), bytes on stdin, stdin closed; throttle 0/20/120 ms, keyboard source on or off, a filter rejecting a generated subset of signal kinds: every sent signal appears in exactly one handler event unless the (recording) filter returned a rejection for it, then in none, closing stdin gives exactly one keyboard-EOF event iff the keyboard source is on, typed bytes give none, no empty batch, the probe stays alive; non-trivial = >=2 signals or an EOF",
		),
		&super::realsrc::strategy,
		&super::realsrc::run,
	);
	e.require_label("real-sources", "signals", 0.7);
	e.require_label("real-sources", "keyboard-eof", 0.1);
	e.require_label("ledger", "2+batches", 0.3);
	e.require_label("ledger", "sent-while-handler-running", 0.1);
}
