//! C01 — accepted events reach the action handler exactly once; rejected ones never; no empty batch.
//!
//! Conservation ledger over a full in-process Watchexec (real time). Every assertion is about
//! *what* was delivered, never about *when*, so a stall cannot produce a false alarm; the only
//! time bound is the generous quiescence wait before the quit is requested.

use std::collections::HashMap;

use proptest::prelude::*;
use serde::{Deserialize, Serialize};

use crate::{
	engine::{Engine, LegOpts, Outcome},
	wxrun::{run as run_scenario, Ev, Run, Scenario, QUIT_ID},
};

pub fn ledger(sc: &Scenario, r: &Run, o: &mut Outcome) {
	let dump = || format!("\nscenario: {sc:?}\nsent: {:?}\nbatches: {:?}\nasked: {:?}\nerrors: {:?}\nmain: {} quiesced: {}", r.sent, r.batches, r.asked, r.errors, r.main_result, r.quiesced);
	// (5) no empty batch
	if let Some((i, _)) = r.batches.iter().enumerate().find(|(_, b)| b.ids.is_empty()) {
		o.fail("empty-batch", format!("action handler invoked with an empty batch (#{i}){}", dump()));
		return;
	}
	// an error the filter raised for a tag-less event (if it was asked about one at all) reaches the error handler
	if sc.empty_errs && !matches!(sc.err_kind % 5, 3 | 4) {
		let reported = r.errors.iter().filter(|e| e.id == Some(crate::wxrun::EMPTY_ERR_ID)).count();
		if reported != r.empty_filter_calls && r.main_result == "ok" && r.quiesced {
			o.fail(
				if reported < r.empty_filter_calls { "filter-error-on-empty-event-lost" } else { "filter-error-on-empty-event-reported-twice" },
				format!("the filter was asked about tag-less events {} times and raised an error each time; the error handler saw {reported} of them{}", r.empty_filter_calls, dump()),
			);
			return;
		}
	}
	let mut delivered: HashMap<Option<u32>, usize> = HashMap::new();
	for b in &r.batches {
		for id in &b.ids {
			*delivered.entry(*id).or_default() += 1;
		}
	}
	// (3) nothing twice
	if let Some((id, n)) = delivered.iter().find(|(id, n)| id.is_some() && **n > 1) {
		o.fail("delivered-twice", format!("event {id:?} was handed to the handler {n} times{}", dump()));
		return;
	}
	let by_id: HashMap<u32, &crate::wxrun::Sent> = r.sent.iter().map(|s| (s.id, s)).collect();
	// (2) rejected / errored never delivered; nothing invented
	for id in delivered.keys().flatten() {
		if *id == QUIT_ID {
			continue;
		}
		match by_id.get(id) {
			None => {
				o.fail("delivered-unknown-event", format!("handler saw event {id} that was never sent{}", dump()));
				return;
			}
			Some(s) => {
				if s.verdict != 0 && s.prio != 3 {
					o.fail(
						if s.verdict == 1 { "rejected-event-delivered" } else { "errored-event-delivered" },
						format!("event {id} (verdict {}) was handed to the handler{}", s.verdict, dump()),
					);
					return;
				}
			}
		}
	}
	let empties_sent = r.sent.iter().filter(|s| s.ok && s.shape == 4).count();
	let empties_seen = delivered.get(&None).copied().unwrap_or(0);
	if empties_seen > empties_sent {
		o.fail("empty-event-duplicated", format!("{empties_seen} empty events delivered, {empties_sent} sent{}", dump()));
		return;
	}
	// (4) urgent and empty events bypass the filter; others are asked about at most once
	let mut asked: HashMap<u32, usize> = HashMap::new();
	for id in &r.asked {
		*asked.entry(*id).or_default() += 1;
	}
	for (id, n) in &asked {
		if *id == QUIT_ID {
			o.fail("urgent-event-filtered", format!("the urgent quit event went through the filter{}", dump()));
			return;
		}
		if let Some(s) = by_id.get(id) {
			if s.prio == 3 {
				o.fail("urgent-event-filtered", format!("urgent event {id} went through the filter{}", dump()));
				return;
			}
		}
		if *n > 1 {
			o.fail("filter-asked-twice", format!("filter asked {n} times about event {id}{}", dump()));
			return;
		}
	}
	// (1) everything owed was delivered exactly once — only if the run was not cut short
	if r.main_result == "ok" {
		if !r.quiesced {
			let missing: Vec<u32> = r
				.sent
				.iter()
				.filter(|s| s.ok && s.shape != 4 && (s.verdict == 0 || s.prio == 3) && !delivered.contains_key(&Some(s.id)))
				.map(|s| s.id)
				.collect();
			let unasked: Vec<u32> = r.sent.iter().filter(|s| s.ok && s.shape != 4 && s.prio != 3 && !asked.contains_key(&s.id)).map(|s| s.id).collect();
			let sig = if !missing.is_empty() {
				"accepted-event-never-delivered"
			} else if empties_seen < empties_sent {
				"empty-event-never-delivered"
			} else if !unasked.is_empty() {
				"event-never-reached-the-filter"
			} else {
				"error-never-reached-the-handler"
			};
			o.fail(sig, format!("not everything owed arrived before the quit was requested: missing {missing:?}, empties {empties_seen}/{empties_sent}, not filtered {unasked:?}{}", dump()));
		}
	} else if r.main_result == "hang" {
		o.fail("main-did-not-end-after-quit", format!("main task did not finish within 5 s of the quit{}", dump()));
	}
}

pub fn labels(sc: &Scenario, r: &Run, o: &mut Outcome) {
	let n_batches = r.batches.len();
	let mut between = false;
	for b in &r.batches {
		let _ = b;
	}
	// a rejected/errored event sent between two accepted ones
	let mut all: Vec<&crate::wxrun::Sent> = r.sent.iter().collect();
	all.sort_by_key(|s| s.before_us);
	for w in all.windows(3) {
		if w[0].verdict == 0 && w[1].verdict != 0 && w[2].verdict == 0 {
			between = true;
		}
	}
	let during_handler = r.sent.iter().any(|s| r.batches.iter().any(|b| b.exit_us > b.entry_us && s.before_us > b.entry_us && s.before_us < b.exit_us));
	let small_queue = sc.chan <= 2 && sc.producers.len() > 2;
	if between {
		o.label("reject-between-accepts");
	}
	if during_handler {
		o.label("sent-while-handler-running");
	}
	if small_queue {
		o.label("small-queue-many-producers");
	}
	if n_batches >= 2 {
		o.label("2+batches");
	}
	o.nontrivial = n_batches >= 2 && (between || during_handler || small_queue);
}

pub fn run(sc: &Scenario) -> Outcome {
	let mut o = Outcome::pass();
	let r = run_scenario(sc, None);
	labels(sc, &r, &mut o);
	ledger(sc, &r, &mut o);
	o
}

pub fn ev(throttle: u32, errors: bool) -> impl Strategy<Value = Ev> {
	let t = throttle.max(1) as u16;
	let gap = prop_oneof![4 => Just(0u16), 3 => 0u16..5, 2 => Just(t / 2), 2 => Just(t.saturating_sub(3)), 2 => Just(t + 3), 1 => Just(t * 2), 1 => 0u16..60];
	let verdict = if errors { prop_oneof![5 => Just(0u8), 3 => Just(1u8), 2 => Just(2u8)].boxed() } else { prop_oneof![5 => Just(0u8), 3 => Just(1u8)].boxed() };
	(gap, prop_oneof![1 => Just(0u8), 6 => Just(1u8), 2 => Just(2u8), 1 => Just(3u8)], verdict, prop_oneof![4 => Just(0u8), 2 => Just(1u8), 1 => Just(2u8), 1 => Just(3u8), 1 => Just(4u8)])
		.prop_map(|(gap, prio, verdict, shape)| Ev { gap, prio, verdict, shape })
}

pub fn scenario(errors: bool) -> BoxedStrategy<Scenario> {
	prop_oneof![Just(0u32), Just(1), Just(5), Just(20), Just(50), Just(120)]
		.prop_flat_map(move |throttle| {
			(
				Just(throttle),
				prop_oneof![Just(1u32), Just(2), Just(8), Just(4096)],
				any::<bool>(),
				prop_oneof![3 => Just(0u16), 2 => 1u16..10, 2 => 10u16..80],
				proptest::collection::vec(proptest::collection::vec(ev(throttle, errors), 1..12), 1..5),
				// error queue size and a slow (20 ms per error) error handler: back-pressure on the worker
				prop_oneof![1 => Just(1u32), 1 => Just(2), 3 => Just(64)],
				// slow error handler; job churn: the handler creates jobs whose tasks are ended one by one while
				// events keep coming (a quarter of the cases)
				(proptest::bool::weighted(0.3), prop_oneof![3 => Just(None), 1 => (3u16..40, 5u8..30).prop_map(Some)]),
			)
		})
		.prop_map(move |(throttle, chan, handler_async, handler_ms, producers, err_chan, (slow_err, job_churn))| Scenario {
			throttle,
			chan,
			err_chan: if errors { err_chan } else { 64 },
			handler_async,
			handler_ms,
			producers,
			err_kind: u8::from(errors && slow_err),
			empty_errs: errors && handler_ms % 2 == 0,
			throttle_via_field: false,
			job_churn,
			err_j: 0,
			replace_action_at: 0,
			throttle_change: None,
		})
		.boxed()
}

// ---------------------------------------------------------------------------------------------
// The filterer replaced at run time: "the configured filter" is the one configured when the event is sent

#[derive(Clone, Debug, Serialize, Deserialize)]
pub struct SwapCase {
	pub throttle: u16,
	/// per phase: (classes rejected by this phase's filter as a bit mask over 4 classes, events (gap ms, class, urgent))
	pub phases: Vec<(u8, Vec<(u16, u8, bool)>)>,
}

#[derive(Debug)]
struct MaskFilter {
	phase: usize,
	mask: u8,
	asked: std::sync::Arc<std::sync::Mutex<Vec<(u32, usize, bool)>>>,
}
impl watchexec::filter::Filterer for MaskFilter {
	fn check_event(&self, event: &watchexec_events::Event, _p: watchexec_events::Priority) -> Result<bool, watchexec::error::RuntimeError> {
		let Some(id) = crate::wxrun::id_of(event) else { return Ok(true) };
		let class = (id & 0xff) as u8 % 4;
		let ok = self.mask & (1 << class) == 0;
		self.asked.lock().unwrap().push((id, self.phase, ok));
		Ok(ok)
	}
}

pub fn run_swap(c: &SwapCase) -> Outcome {
	use std::sync::{Arc, Mutex};
	use std::time::{Duration, Instant};
	use watchexec_events::Priority;
	let mut o = Outcome::pass();
	let rt = tokio::runtime::Builder::new_multi_thread().worker_threads(2).enable_all().build().unwrap();
	// id = phase << 16 | index << 8 | class
	struct Obs {
		delivered: Vec<Vec<Option<u32>>>,
		asked: Vec<(u32, usize, bool)>,
		sent: Vec<(u32, usize, u8, bool)>,
		settled: bool,
		main: String,
	}
	let obs: Obs = rt.block_on(async {
		let config = watchexec::Config::default();
		config.throttle(Duration::from_millis(u64::from(c.throttle)));
		let asked: Arc<Mutex<Vec<(u32, usize, bool)>>> = Arc::new(Mutex::new(Vec::new()));
		let delivered: Arc<Mutex<Vec<Vec<Option<u32>>>>> = Arc::new(Mutex::new(Vec::new()));
		{
			let delivered = delivered.clone();
			config.on_action(move |mut action| {
				let ids: Vec<Option<u32>> = action.events.iter().map(crate::wxrun::id_of).collect();
				let quit = ids.contains(&Some(crate::wxrun::QUIT_ID));
				delivered.lock().unwrap().push(ids);
				if quit {
					action.quit();
				}
				action
			});
		}
		let wx = watchexec::Watchexec::with_config(config).expect("with_config");
		let mut main = wx.main();
		let mut sent: Vec<(u32, usize, u8, bool)> = Vec::new();
		let mut settled = true;
		for (pi, (mask, evs)) in c.phases.iter().enumerate() {
			// everything sent so far must have been judged (or delivered, if urgent) before the filter changes:
			// an event still in the queue may legitimately meet either filter
			let until = Instant::now() + Duration::from_secs(3);
			loop {
				let judged = asked.lock().unwrap().len() + sent.iter().filter(|s| s.3).count();
				if judged >= sent.len() {
					break;
				}
				if Instant::now() > until {
					settled = false;
					break;
				}
				tokio::time::sleep(Duration::from_millis(2)).await;
			}
			wx.config.filterer(MaskFilter { phase: pi, mask: *mask, asked: asked.clone() });
			for (k, (gap, class, urgent)) in evs.iter().enumerate() {
				if *gap > 0 {
					tokio::time::sleep(Duration::from_millis(u64::from(*gap))).await;
				}
				let id = ((pi as u32) << 16) | ((k as u32) << 8) | u32::from(*class % 4);
				let _ = wx.send_event(crate::wxrun::make_event(id, 0), if *urgent { Priority::Urgent } else { Priority::Normal }).await;
				sent.push((id, pi, *class % 4, *urgent));
			}
		}
		// quiescence
		let until = Instant::now() + Duration::from_millis(2000 + 3 * u64::from(c.throttle));
		loop {
			let judged = asked.lock().unwrap().len() + sent.iter().filter(|s| s.3).count();
			let want: usize = sent.iter().filter(|s| s.3 || c.phases[s.1].0 & (1 << s.2) == 0).count();
			let got: usize = delivered.lock().unwrap().iter().map(Vec::len).sum();
			if (judged >= sent.len() && got >= want) || Instant::now() > until {
				break;
			}
			tokio::time::sleep(Duration::from_millis(3)).await;
		}
		tokio::time::sleep(Duration::from_millis(30 + u64::from(c.throttle))).await;
		let _ = tokio::time::timeout(Duration::from_secs(2), wx.send_event(crate::wxrun::make_event(crate::wxrun::QUIT_ID, 0), Priority::Urgent)).await;
		let main = match tokio::time::timeout(Duration::from_secs(5), &mut main).await {
			Err(_) => {
				main.abort();
				"hang".to_string()
			}
			Ok(Ok(Ok(()))) => "ok".to_string(),
			Ok(other) => format!("{other:?}"),
		};
		let d = delivered.lock().unwrap().clone();
		let a = asked.lock().unwrap().clone();
		Obs { delivered: d, asked: a, sent, settled, main }
	});
	rt.shutdown_timeout(Duration::from_millis(200));
	let dump = || format!("\ncase {c:?}\nsent (id, phase, class, urgent): {:?}\nfilter calls (id, phase of the filter that was asked, verdict): {:?}\nbatches: {:?}\nmain: {}", obs.sent, obs.asked, obs.delivered, obs.main);
	let differing = c.phases.windows(2).any(|w| w[0].0 != w[1].0);
	o.nontrivial = c.phases.len() >= 2 && differing;
	if differing {
		o.label("filters-differ-between-phases");
	}
	if !obs.settled {
		o.label("not-settled-before-a-swap");
		return o;
	}
	if obs.main != "ok" {
		o.fail("filter-swap:main", format!("main task: {}{}", obs.main, dump()));
		return o;
	}
	for (id, phase, class, urgent) in &obs.sent {
		let n = obs.delivered.iter().flatten().filter(|x| **x == Some(*id)).count();
		let accept = *urgent || c.phases[*phase].0 & (1 << class) == 0;
		if let Some((_, fp, _)) = obs.asked.iter().find(|(i, fp, _)| i == id && fp != phase) {
			o.fail(
				"filter-swap:judged-by-replaced-filter",
				format!("event {id:#x} was sent after filter {phase} had been configured but was judged by filter {fp}{}", dump()),
			);
			return o;
		}
		if accept && n != 1 {
			o.fail(if n == 0 { "accepted-event-never-delivered" } else { "event-delivered-twice" }, format!("event {id:#x} (accepted by the filter configured when it was sent) was delivered {n} times{}", dump()));
			return o;
		}
		if !accept && n != 0 {
			o.fail("rejected-event-delivered", format!("event {id:#x} (rejected by the filter configured when it was sent) was delivered{}", dump()));
			return o;
		}
	}
	o
}

// ---------------------------------------------------------------------------------------------
// Events that are equal to one another (same tags, same metadata) are still separate events

#[derive(Clone, Debug, Serialize, Deserialize)]
pub struct IdenticalCase {
	pub throttle: u16,
	/// (gap ms before it, which of 3 event contents: 0 = path + kind, 1 = signal, 2 = another path + kind)
	pub sends: Vec<(u16, u8)>,
}

pub fn run_identical(c: &IdenticalCase) -> Outcome {
	use std::sync::{Arc, Mutex};
	use std::time::{Duration, Instant};
	use watchexec_events::{filekind::{CreateKind, FileEventKind}, Event, Priority, Source, Tag};
	use watchexec_signals::Signal;
	let mut o = Outcome::pass();
	let content = |k: u8| -> Event {
		match k % 3 {
			0 => Event {
				tags: vec![Tag::Source(Source::Filesystem), Tag::FileEventKind(FileEventKind::Create(CreateKind::File)), Tag::Path { path: "/vh/same/a.txt".into(), file_type: None }],
				metadata: Default::default(),
			},
			1 => Event { tags: vec![Tag::Source(Source::Os), Tag::Signal(Signal::User1)], metadata: Default::default() },
			_ => Event {
				tags: vec![Tag::Source(Source::Filesystem), Tag::FileEventKind(FileEventKind::Create(CreateKind::File)), Tag::Path { path: "/vh/same/b.txt".into(), file_type: None }],
				metadata: Default::default(),
			},
		}
	};
	let rt = tokio::runtime::Builder::new_multi_thread().worker_threads(2).enable_all().build().unwrap();
	let (got, batches, main): ([usize; 3], usize, String) = rt.block_on(async {
		let config = watchexec::Config::default();
		config.throttle(Duration::from_millis(u64::from(c.throttle)));
		let seen: Arc<Mutex<(Vec<Event>, usize)>> = Arc::new(Mutex::new((Vec::new(), 0)));
		{
			let seen = seen.clone();
			config.on_action(move |mut action| {
				let quit = action.events.iter().any(|e| crate::wxrun::id_of(e) == Some(crate::wxrun::QUIT_ID));
				let mut g = seen.lock().unwrap();
				g.1 += 1;
				g.0.extend(action.events.iter().cloned());
				drop(g);
				if quit {
					action.quit();
				}
				action
			});
		}
		let wx = watchexec::Watchexec::with_config(config).expect("with_config");
		let mut main = wx.main();
		let mut want = [0usize; 3];
		for (gap, k) in &c.sends {
			if *gap > 0 {
				tokio::time::sleep(Duration::from_millis(u64::from(*gap))).await;
			}
			let _ = wx.send_event(content(*k), Priority::Normal).await;
			want[usize::from(*k % 3)] += 1;
		}
		let count = |seen: &Arc<Mutex<(Vec<Event>, usize)>>| -> [usize; 3] {
			let g = seen.lock().unwrap();
			[0u8, 1, 2].map(|k| g.0.iter().filter(|e| **e == content(k)).count())
		};
		let until = Instant::now() + Duration::from_millis(1500 + 3 * u64::from(c.throttle));
		while Instant::now() < until && count(&seen) != want {
			tokio::time::sleep(Duration::from_millis(3)).await;
		}
		tokio::time::sleep(Duration::from_millis(30 + u64::from(c.throttle))).await;
		let _ = tokio::time::timeout(Duration::from_secs(2), wx.send_event(crate::wxrun::make_event(crate::wxrun::QUIT_ID, 0), Priority::Urgent)).await;
		let main = match tokio::time::timeout(Duration::from_secs(5), &mut main).await {
			Err(_) => {
				main.abort();
				"hang".to_string()
			}
			Ok(Ok(Ok(()))) => "ok".to_string(),
			Ok(other) => format!("{other:?}"),
		};
		let b = seen.lock().unwrap().1;
		(count(&seen), b, main)
	});
	rt.shutdown_timeout(Duration::from_millis(200));
	let mut want = [0usize; 3];
	for (_, k) in &c.sends {
		want[usize::from(*k % 3)] += 1;
	}
	o.nontrivial = want.iter().any(|n| *n >= 2);
	if c.sends.windows(2).any(|w| w[0].1 % 3 == w[1].1 % 3) {
		o.label("equal-events-back-to-back");
	}
	if main != "ok" {
		o.fail("identical:main", format!("main task: {main}\ncase {c:?}"));
	} else if got != want {
		let lost = (0..3).any(|k| got[k] < want[k]);
		o.fail(
			if lost { "accepted-event-never-delivered" } else { "delivered-twice" },
			format!("events equal to one another were sent {want:?} times (per content) and handed to the handler {got:?} times, in {batches} batches\ncase {c:?}"),
		);
	}
	o
}

fn swap_strategy() -> BoxedStrategy<SwapCase> {
	let ev = (prop_oneof![3 => Just(0u16), 1 => Just(3), 1 => Just(40)], 0u8..4, proptest::bool::weighted(0.1));
	(
		prop_oneof![Just(0u16), Just(25)],
		proptest::collection::vec((0u8..16, proptest::collection::vec(ev, 1..5)), 2..5),
	)
		.prop_map(|(throttle, phases)| SwapCase { throttle, phases })
		.boxed()
}

pub fn check(e: &Engine) {
	e.assume("real time, in-process Watchexec on a 2-worker runtime per scenario; all ledger assertions are schedule-independent; the quit is requested only after everything owed has arrived or a 1.5 s + 3 x throttle wait has expired (a violation only if it reproduces 3 times)");
	e.assume("events sent concurrently with or after the quit are outside the property ('until a quit is requested')");
	e.explore(
		"ledger",
		LegOpts::realtime(
			e.tier.pick(3_000, 60_000),
			48,
			"1-4 producer tasks x 1-11 events (priority low..urgent, verdict pass/reject/error, tag shapes process/path/signal/keyboard-EOF/empty) with gaps placed relative to the throttle (inside the window, straddling its end, beyond), throttle 0-120 ms, queue size 1/2/8/4096, error queue size 1/2/64 with an error handler that returns at once or takes 20 ms, sync or async handler taking 0-80 ms; conservation ledger; non-trivial = >=2 batches and (reject between accepts | event sent while the handler ran | queue <=2 with >2 producers)",
		),
		&|| scenario(true),
		&run,
	);
	e.explore(
		"real-fs",
		LegOpts::realtime(e.tier.pick(48, 1_200), 8, "real native and poll(40 ms) watchers on a scratch tree: create / write / rename / remove / mkdir in directly and deeply nested places, path set (3 dirs incl. a nested one, recursive or not) changed at run time; every change under a configured path must be named by a delivered event within 2.5 s, nothing outside the tree is reported; non-trivial = >=2 asserted changes"),
		&super::realfs::strategy,
		&super::realfs::run,
	);
	e.explore(
		"real-sources",
		LegOpts::realtime(
			e.tier.pick(96, 1_500),
			16,
			"a separate probe process (library Watchexec with the real signal and keyboard sources) receives 1-8 generated steps: OS signals HUP/INT/QUIT/TERM/USR1/USR2 (the same kind never twice within 300 ms: standard signals do not queue), bytes on stdin (a short line, text without a newline, a latin-1 line, binary with NULs and 0xFF, or one 20 KB line; typed before the close in two thirds of the closing cases), stdin closed; throttle 0/20/120 ms, keyboard source on or off and switched 0-3 times at run time before the steps, a filter rejecting a generated subset of signal kinds: every sent signal appears in exactly one handler event unless the (recording) filter returned a rejection for it, then in none, closing stdin gives exactly one keyboard-EOF event iff the keyboard source is on, typed bytes give none, no empty batch, the probe stays alive; non-trivial = >=2 signals or an EOF",
		),
		&super::realsrc::strategy,
		&super::realsrc::run,
	);
	e.explore(
		"filter-swap",
		LegOpts::realtime(
			e.tier.pick(300, 6_000),
			16,
			"2-4 phases; at the start of each the filterer is replaced through Config::filterer (recording filters rejecting a generated subset of 4 event classes) once everything sent before has been judged, then 1-4 events (gaps 0-40 ms, some urgent) are sent: every event is judged only by the filter configured when it was sent, delivered exactly once if that filter accepts it (or it is urgent) and never otherwise; non-trivial = consecutive phases with different filters",
		),
		&swap_strategy,
		&run_swap,
	);
	e.require_label("filter-swap", "filters-differ-between-phases", 0.7);
	e.explore(
		"identical-events",
		LegOpts::realtime(
			e.tier.pick(200, 4_000),
			16,
			"2-8 events drawn from three fixed contents (a path with a kind, a signal, another path with a kind: no distinguishing id, so equal events are really equal), gaps 0-40 ms, throttle 0/25/80 ms: each content is handed to the handler exactly as often as it was sent; non-trivial = some content sent twice or more",
		),
		&|| {
			(prop_oneof![Just(0u16), Just(25), Just(80)], proptest::collection::vec((prop_oneof![3 => Just(0u16), 1 => Just(2), 1 => Just(40)], 0u8..3), 2..9))
				.prop_map(|(throttle, sends)| IdenticalCase { throttle, sends })
				.boxed()
		},
		&run_identical,
	);
	e.require_label("identical-events", "equal-events-back-to-back", 0.5);
	e.require_label("real-sources", "signals", 0.7);
	e.require_label("real-sources", "keyboard-eof", 0.1);
	e.require_label("real-sources", "keyboard-eof-after-non-utf8-input", 0.03);
	e.require_label("ledger", "2+batches", 0.3);
	e.require_label("ledger", "sent-while-handler-running", 0.1);
}
