//! C13 — watcher registration converges to the configured path set.
//!
//! The production `sources::fs::worker` is driven directly on a paused current-thread runtime with
//! the recording mock watcher of hook H1. "During-apply" operations make a configuration change
//! land inside the worker's read-apply window deterministically: the mock performs it from within
//! the k-th watch/unwatch call.

use std::{
	collections::BTreeMap,
	path::PathBuf,
	sync::{Arc, Mutex},
	time::Duration,
};

use proptest::prelude::*;
use serde::{Deserialize, Serialize};
use tokio::sync::mpsc;
use watchexec::{
	error::{FsWatcherError, RuntimeError},
	sources::fs::{worker, Watcher as Kind},
	Config, WatchedPath,
};

use crate::{
	engine::{Engine, LegOpts, Outcome},
	mockwatch::{Call, KindName, MockWorld},
};

#[derive(Clone, Debug, Serialize, Deserialize, PartialEq, Eq)]
pub enum Change {
	/// bit i of `mask` = path i configured (bit 4+i: listed twice); bit i of `rec` = recursive
	Paths { mask: u8, rec: u8 },
	/// 0 native, 1 poll(50 ms), 2 poll(200 ms)
	Kind(u8),
}

#[derive(Clone, Debug, Serialize, Deserialize, PartialEq, Eq)]
pub enum Op {
	Change(Change),
	/// a change that signals but is irrelevant to the fs worker: 0 keyboard, 1 throttle, 2 error handler
	Irrelevant(u8),
	/// the next watch (true) / unwatch (false) of path i fails once
	FailNext { path: u8, watch: bool },
	/// the nth upcoming watch/unwatch call performs this change before returning
	During { nth: u8, change: Change },
}

#[derive(Clone, Debug, Serialize, Deserialize)]
pub struct Step {
	pub op: Op,
	/// let the worker settle after this op
	pub settle: bool,
}

#[derive(Clone, Debug, Serialize, Deserialize)]
pub struct C13Case {
	pub steps: Vec<Step>,
	/// notify error kind carried by injected watch / unwatch failures (mockwatch::ERR_KINDS)
	#[serde(default)]
	pub err_kind: u8,
}

const N: usize = 4;

/// The four configured paths are related the ways real path sets are: 2 lies inside 0 (a nested
/// watch keeps its own registration and recursion mode), 3 is a string-prefix sibling of 0.
fn path(i: usize) -> PathBuf {
	PathBuf::from(match i {
		0 => "/vh-c13/p0".to_string(),
		2 => "/vh-c13/p0/vendor/lib".to_string(),
		3 => "/vh-c13/p0x".to_string(),
		_ => format!("/vh-c13/p{i}"),
	})
}

fn kind_of(k: u8) -> Kind {
	match k % 3 {
		0 => Kind::Native,
		1 => Kind::Poll(Duration::from_millis(50)),
		_ => Kind::Poll(Duration::from_millis(200)),
	}
}

fn kind_name_of(k: u8) -> KindName {
	match k % 3 {
		0 => KindName::Native,
		1 => KindName::Poll(50),
		_ => KindName::Poll(200),
	}
}

#[derive(Clone, Debug, Default)]
struct Model {
	paths: BTreeMap<PathBuf, bool>,
	kind: u8,
}

fn apply_change(config: &Config, model: &Mutex<Model>, c: &Change) {
	match c {
		Change::Paths { mask, rec } => {
			let mut v = Vec::new();
			let mut m = BTreeMap::new();
			for i in 0..N {
				if mask >> i & 1 == 1 {
					let r = rec >> i & 1 == 1;
					v.push(if r { WatchedPath::recursive(path(i)) } else { WatchedPath::non_recursive(path(i)) });
					// bit 4+i of `mask`: the entry is listed twice (the configured *set* is the same)
					if mask >> (4 + i) & 1 == 1 {
						v.push(if r { WatchedPath::recursive(path(i)) } else { WatchedPath::non_recursive(path(i)) });
					}
					m.insert(path(i), r);
				}
			}
			model.lock().unwrap().paths = m;
			config.pathset(v);
		}
		Change::Kind(k) => {
			model.lock().unwrap().kind = *k % 3;
			config.file_watcher(kind_of(*k));
		}
	}
}

pub fn run(c: &C13Case) -> Outcome {
	let mut o = Outcome::pass();
	let rt = tokio::runtime::Builder::new_current_thread().enable_all().start_paused(true).build().unwrap();
	let world = MockWorld::default();
	let res: Result<(), (String, String)> = rt.block_on(async {
		world.install();
		world.0.lock().unwrap().err_kind = c.err_kind;
		let config = Arc::new(Config::default());
		let model = Arc::new(Mutex::new(Model::default()));
		let (er_s, mut er_r) = mpsc::channel::<RuntimeError>(256);
		let (ev_s, _ev_r) = async_priority_channel::bounded(1024);
		let task = tokio::spawn(worker(config.clone(), er_s, ev_s));
		let settle = || tokio::time::sleep(Duration::from_millis(1));
		settle().await;
		let mut injected = 0usize;
		for st in &c.steps {
			match &st.op {
				Op::Change(ch) => apply_change(&config, &model, ch),
				Op::Irrelevant(k) => match k % 3 {
					0 => {
						// keyboard toggling would spawn a stdin reader; flip throttle twice instead
						config.throttle(Duration::from_millis(51));
					}
					1 => {
						config.throttle(Duration::from_millis(70));
					}
					_ => {
						config.on_error(|_| {});
					}
				},
				Op::FailNext { path: p, watch } => {
					world.0.lock().unwrap().fail_next.push((path(*p as usize % N), *watch));
					injected += 1;
				}
				Op::During { nth, change } => {
					let config = config.clone();
					let model = model.clone();
					let change = change.clone();
					world.0.lock().unwrap().during.push((*nth as usize, Box::new(move || apply_change(&config, &model, &change))));
				}
			}
			if st.settle {
				settle().await;
			}
		}
		settle().await;
		settle().await;
		if task.is_finished() {
			let r = task.await;
			return Err(("worker-ended".to_string(), format!("fs worker ended: {r:?}")));
		}
		let m = model.lock().unwrap().clone();
		let check = |strict: bool, phase: &str| -> Result<(), (String, String)> {
			let g = world.0.lock().unwrap();
			let live: Vec<usize> = g.instances.iter().enumerate().filter(|(_, i)| i.live).map(|(k, _)| k).collect();
			let calls = format!("{:?}", g.calls);
			if m.paths.is_empty() {
				if !live.is_empty() {
					return Err(("watcher-not-released-on-empty-set".into(), format!("[{phase}] path set is empty but watcher instance(s) {live:?} are still alive\ncalls: {calls}")));
				}
				return Ok(());
			}
			if live.len() != 1 {
				return Err(("live-watcher-count".into(), format!("[{phase}] {} live watcher instances, expected 1\ncalls: {calls}", live.len())));
			}
			let inst = &g.instances[live[0]];
			if inst.kind != kind_name_of(m.kind) {
				return Err(("watcher-kind".into(), format!("[{phase}] active watcher is {:?}, configured {:?}\ncalls: {calls}", inst.kind, kind_name_of(m.kind))));
			}
			let mut expected = m.paths.clone();
			if !strict {
				// paths whose latest attempt on the live instance was failed by injection
				for i in 0..N {
					let p = path(i);
					let last = g.calls.iter().rev().find(|c| match c {
						Call::Watch { id, path, .. } | Call::Unwatch { id, path, .. } => *id == live[0] && *path == p,
						_ => false,
					});
					match last {
						Some(Call::Watch { ok: false, .. }) => {
							expected.remove(&p);
						}
						Some(Call::Unwatch { ok: false, injected: true, .. }) => {
							if let Some(r) = inst.registered.get(&p) {
								expected.entry(p).or_insert(*r);
							}
						}
						_ => {}
					}
				}
			}
			if inst.registered != expected {
				let kind_changed = g.calls.iter().filter(|c| matches!(c, Call::Create { .. })).count() > 1;
				let sig = if kind_changed && inst.registered.is_empty() {
					"registered-set-differs:after-watcher-kind-change"
				} else if expected.iter().any(|(p, r)| inst.registered.get(p).map_or(false, |x| x != r)) {
					"registered-set-differs:recursion-mode"
				} else {
					"registered-set-differs"
				};
				return Err((sig.into(), format!("[{phase}] registered {:?}, configured {:?} (expected after failures {:?})\ncalls: {calls}", inst.registered, m.paths, expected)));
			}
			Ok(())
		};
		check(false, "after changes stopped")?;
		// bookkeeping: the worker never unwatches something that is not registered
		{
			let g = world.0.lock().unwrap();
			if let Some(c) = g.calls.iter().find(|c| matches!(c, Call::Unwatch { ok: false, injected: false, .. })) {
				return Err(("unwatch-of-unregistered-path".into(), format!("{c:?}\ncalls: {:?}", g.calls)));
			}
		}
		// errors: exactly one per failed attempt, naming the path
		let mut errs: Vec<(bool, PathBuf)> = Vec::new();
		while let Ok(e) = er_r.try_recv() {
			match e {
				RuntimeError::FsWatcher { err: FsWatcherError::PathAdd { path, .. }, .. } => errs.push((true, path)),
				RuntimeError::FsWatcher { err: FsWatcherError::PathRemove { path, .. }, .. } => errs.push((false, path)),
				other => return Err(("unexpected-runtime-error".into(), format!("{other:?}"))),
			}
		}
		let err_kind = c.err_kind;
		let mut failed: Vec<(bool, PathBuf)> = world
			.0
			.lock()
			.unwrap()
			.calls
			.iter()
			.flat_map(|c| match c {
				// one error per path the notify error names (the path of the call if it names none)
				Call::Watch { ok: false, path, .. } => crate::mockwatch::reported_paths(err_kind, path).into_iter().map(|p| (true, p)).collect::<Vec<_>>(),
				Call::Unwatch { ok: false, path, injected: true, .. } => crate::mockwatch::reported_paths(err_kind, path).into_iter().map(|p| (false, p)).collect(),
				Call::Unwatch { ok: false, path, .. } => vec![(false, path.clone())],
				_ => vec![],
			})
			.collect();
		errs.sort();
		failed.sort();
		if errs != failed {
			return Err((
				"errors-differ-from-failed-attempts".into(),
				format!("runtime errors {errs:?} (true = add), failed attempts {failed:?}\ncalls: {:?}", world.0.lock().unwrap().calls),
			));
		}
		// repair round: clear injections, signal an irrelevant change, everything must be exact now
		if injected > 0 {
			world.0.lock().unwrap().fail_next.clear();
			world.0.lock().unwrap().during.clear();
			// the retry is triggered either by an unrelated change or by setting the very same path set again
			// (the natural way to ask for a retry, e.g. from an error handler after fixing the cause)
			let reassert = c.steps.len() % 2 == 0 && !m.paths.is_empty();
			if reassert {
				let list: Vec<WatchedPath> = m.paths.iter().map(|(p, r)| if *r { WatchedPath::recursive(p.clone()) } else { WatchedPath::non_recursive(p.clone()) }).collect();
				config.pathset(list);
			} else {
				config.throttle(Duration::from_millis(52));
			}
			settle().await;
			settle().await;
			check(true, if reassert { "after the same path set was set again to retry the failed paths" } else { "after a later unrelated change retried the failed paths" })?;
		}
		task.abort();
		Ok(())
	});
	MockWorld::uninstall();
	drop(rt);
	// labels
	let changes = c.steps.iter().filter(|s| matches!(s.op, Op::Change(_))).count();
	let during = c.steps.iter().any(|s| matches!(s.op, Op::During { .. }));
	let kind_change = c.steps.iter().any(|s| matches!(&s.op, Op::Change(Change::Kind(_)) | Op::During { change: Change::Kind(_), .. }));
	let fail = c.steps.iter().any(|s| matches!(s.op, Op::FailNext { .. }));
	if during {
		o.label("during-apply");
	}
	if kind_change {
		o.label("kind-change");
	}
	if fail {
		o.label("failure-injected");
	}
	if world.0.lock().unwrap().calls.iter().any(|c| matches!(c, Call::Watch { ok: false, .. } | Call::Unwatch { ok: false, injected: true, .. })) {
		o.label("failure-hit");
	}
	o.nontrivial = changes >= 2 && (during || kind_change || fail);
	if let Err((mut sig, msg)) = res {
		// root cause classification: the worker keys its bookkeeping on (path, mode) while the
		// watcher is keyed on the path; a failed unwatch followed by a re-watch of the same path
		// with the other mode leaves both entries behind
		let g = world.0.lock().unwrap();
		let flip_after_failed_unwatch = g.calls.iter().enumerate().any(|(i, c)| match c {
			Call::Unwatch { id, path, injected: true, .. } => g.calls[i + 1..].iter().any(|d| matches!(d, Call::Watch { id: id2, path: p2, .. } if id2 == id && p2 == path)),
			_ => false,
		});
		if flip_after_failed_unwatch && (sig.starts_with("registered-set-differs") || sig == "unwatch-of-unregistered-path" || sig == "errors-differ-from-failed-attempts") {
			sig = "bookkeeping:recursion-mode-flip-after-failed-unwatch".to_string();
		}
		drop(g);
		o.fail(sig, format!("{msg}\ncase: {c:?}"));
	}
	o
}

fn change() -> impl Strategy<Value = Change> {
	prop_oneof![
		4 => (0u8..16, 0u8..16).prop_map(|(mask, rec)| Change::Paths { mask, rec }),
		1 => (0u8..16, 0u8..16, 0u8..16).prop_map(|(mask, rec, dup)| Change::Paths { mask: mask | (dup << 4), rec }),
		1 => (0u8..3).prop_map(Change::Kind)
	]
}

fn op() -> impl Strategy<Value = Op> {
	prop_oneof![
		8 => change().prop_map(Op::Change),
		1 => (0u8..3).prop_map(Op::Irrelevant),
		2 => (0u8..4, any::<bool>()).prop_map(|(path, watch)| Op::FailNext { path, watch }),
		2 => (0u8..3, change()).prop_map(|(nth, change)| Op::During { nth, change }),
	]
}

fn strategy() -> BoxedStrategy<C13Case> {
	(proptest::collection::vec((op(), proptest::bool::weighted(0.7)).prop_map(|(op, settle)| Step { op, settle }), 1..12), 0u8..32)
		.prop_map(|(steps, err_kind)| C13Case { steps, err_kind })
		.boxed()
}

fn exhaustive(max_len: usize) -> Vec<C13Case> {
	// reduced alphabet over a 2-path universe
	let alpha: Vec<Op> = vec![
		Op::Change(Change::Paths { mask: 0, rec: 0 }),
		Op::Change(Change::Paths { mask: 1, rec: 1 }),
		Op::Change(Change::Paths { mask: 3, rec: 1 }),
		Op::Change(Change::Paths { mask: 3, rec: 2 }),
		Op::Change(Change::Paths { mask: 2, rec: 0 }),
		// path 0 listed twice: the same length as {0, 1} but a different set
		Op::Change(Change::Paths { mask: 1 | (1 << 4), rec: 1 }),
		Op::Change(Change::Kind(0)),
		Op::Change(Change::Kind(1)),
		Op::FailNext { path: 0, watch: true },
		Op::FailNext { path: 1, watch: false },
		Op::During { nth: 0, change: Change::Paths { mask: 2, rec: 2 } },
		Op::During { nth: 0, change: Change::Kind(2) },
		Op::Irrelevant(1),
	];
	let mut seqs: Vec<Vec<usize>> = vec![vec![]];
	let mut out = Vec::new();
	for _ in 0..max_len {
		let mut next = Vec::new();
		for s in &seqs {
			for i in 0..alpha.len() {
				let mut t = s.clone();
				t.push(i);
				next.push(t);
			}
		}
		for s in &next {
			for settle in [true, false] {
				// the error kind of injected failures varies with the sequence (not multiplied in)
				let err_kind = (s.iter().sum::<usize>() % 32) as u8;
				out.push(C13Case {
					steps: s.iter().map(|i| Step { op: alpha[*i].clone(), settle }).collect(),
					err_kind,
				});
			}
		}
		seqs = next;
	}
	out
}

pub fn check(e: &Engine) {
	e.assume("the OS watcher is replaced by a recording mock through hook H1 (per-thread factory); convergence is judged on the production fs worker's calls to it, on a paused clock");
	e.assume("a path whose latest registration attempt was failed by injection is expected to be missing (resp. still registered for a failed unwatch) until a later change retries it; after such a retry round the registered set must be exact");
	e.enumerate(
		"exhaustive",
		"all sequences over a 13-op reduced alphabet (2-path universe: set/clear/mode flip, a path listed twice, kind change, watch/unwatch failure, during-apply path and kind change, irrelevant change) up to the bound x {settled, burst}",
		true,
		exhaustive(e.tier.pick(3, 4)),
		&run,
	);
	e.explore(
		"random",
		LegOpts::det(e.tier.pick(60_000, 1_500_000), "random sequences (<=11 ops) over a 4-path universe with recursion modes, 3 watcher kinds, irrelevant changes, one-shot watch/unwatch failures, changes landing during the 1st-3rd upcoming watch/unwatch call; non-trivial = >=2 changes and (during-apply | kind change | injected failure)"),
		&strategy,
		&run,
	);
	e.explore(
		"behavioural",
		LegOpts::realtime(e.tier.pick(40, 1_000), 8, "behavioural variant with the real native and poll watchers: after each run-time path-set change (3 dirs incl. a nested one, recursion-mode flips), touching files under configured paths must be observed"),
		&|| {
			use crate::props::realfs::{FsStep, RealFsCase};
			// reconfiguration-heavy: alternate path-set changes and file operations
			(any::<bool>(), proptest::collection::vec(((1u8..8, 0u8..8), 0u8..3, any::<bool>()), 2..5))
				.prop_map(|(poll, rounds)| {
					let mut steps = Vec::new();
					for ((mask, rec), dir, deep) in rounds {
						steps.push(FsStep::SetPaths { mask, rec });
						steps.push(FsStep::Create { dir, deep });
						steps.push(FsStep::Write { dir });
					}
					RealFsCase { poll, steps }
				})
				.boxed()
		},
		&super::realfs::run,
	);
	e.require_label("random", "during-apply", 0.2);
	e.require_label("random", "failure-hit", 0.1);
}
