//! C17 (CLI leg) — the line-based stdin/file format lists each (kind, path) pair of the batch
//! once per event, in event order. Reached through hook H2.

use proptest::prelude::*;

use super::{
	c16::all_kinds,
	c17::{name, Batch, EvSpec, PathSpec},
};
use crate::engine::{Engine, LegOpts, Outcome};
use std::path::PathBuf;
use watchexec_events::{Event, FileType, Tag};

fn simple_labels(full: &str) -> &'static [&'static str] {
	// the documented spellings and the implemented ones (the property does not fix them)
	if full.starts_with("Access(") {
		&["access"]
	} else if full.starts_with("Create(") {
		&["create"]
	} else if full.starts_with("Remove(") {
		&["remove"]
	} else if full.starts_with("Modify(Name(") {
		&["rename", "modify"]
	} else if full.starts_with("Modify(") {
		&["modify"]
	} else {
		&["other"]
	}
}

fn run(b: &Batch) -> Outcome {
	let mut o = Outcome::pass();
	let kinds = all_kinds();
	// tags in spec order: kinds first then paths (iteration is events, then paths, then kinds)
	let events: Vec<Event> = b
		.events
		.iter()
		.map(|e| {
			let mut tags = Vec::new();
			for k in &e.kinds {
				tags.push(Tag::FileEventKind(kinds[*k as usize % kinds.len()].0));
			}
			for p in &e.paths {
				tags.push(Tag::Path {
					path: PathBuf::from(&p.path),
					file_type: match p.ft % 3 {
						1 => Some(FileType::File),
						2 => Some(FileType::Dir),
						_ => None,
					},
				});
			}
			Event { tags, metadata: Default::default() }
		})
		.collect();
	let text = match watchexec_cli::verif::events_to_simple_format(&events) {
		Ok(t) => t,
		Err(e) => {
			o.fail("simple-format-error", e.to_string());
			return o;
		}
	};
	let lines: Vec<&str> = text.lines().collect();
	// reference list: events, then paths, then kinds in tag order; a pathed event without a kind
	// yields one "other" line per path
	let mut expected: Vec<(Vec<&'static str>, String)> = Vec::new();
	for e in &b.events {
		for p in &e.paths {
			if e.kinds.is_empty() {
				expected.push((vec!["other"], p.path.clone()));
			}
			for k in &e.kinds {
				expected.push((simple_labels(kinds[*k as usize % kinds.len()].1).to_vec(), p.path.clone()));
			}
		}
	}
	o.nontrivial = b.events.len() >= 2 && expected.len() >= 3;
	if lines.len() != expected.len() {
		o.fail(
			"simple-format:line-count",
			format!("{} lines, expected {} (one per (kind, path) pair per event)\nbatch {b:?}\ntext:\n{text}", lines.len(), expected.len()),
		);
		return o;
	}
	for (i, (line, (labels, path))) in lines.iter().zip(expected.iter()).enumerate() {
		let ok = labels.iter().any(|l| *line == format!("{l}:{path}"));
		if !ok {
			o.fail(
				"simple-format:line-differs",
				format!("line {i} is {line:?}, expected one of {labels:?} followed by ':{path}'\nbatch {b:?}\ntext:\n{text}"),
			);
			return o;
		}
	}
	// environment emitter: same content as the library summary, with the documented variable names
	let envs: Vec<(String, std::ffi::OsString)> = watchexec_cli::verif::emits_to_environment(&events).map(|v| (v.key, v.value)).collect();
	let lib = watchexec::paths::summarise_events_to_env(events.iter());
	if envs.len() != lib.len() || envs.iter().any(|(k, v)| {
		let short = k.strip_prefix("WATCHEXEC_").and_then(|k| k.strip_suffix("_PATH"));
		short.and_then(|s| lib.get(s)) != Some(v)
	}) {
		o.fail("environment-vars-differ", format!("emits_to_environment gave {envs:?}, library summary {lib:?}"));
	}
	o
}

fn strategy() -> BoxedStrategy<Batch> {
	let n = all_kinds().len() as u16;
	let path = proptest::collection::vec(name(), 1..4).prop_map(|c| format!("/r/{}", c.join("/")));
	let ev = (
		proptest::collection::vec((path, 0u8..3).prop_map(|(path, ft)| PathSpec { path, ft }), 0..4),
		proptest::collection::vec(0..n, 0..3),
	)
		.prop_map(|(paths, kinds)| EvSpec { paths, kinds, noise: false });
	proptest::collection::vec(ev, 0..7).prop_map(|events| Batch { events }).boxed()
}

// ---------------------------------------------------------------------------------------------
// End to end: the real CLI handing several batches in a row to a command through --emit-events-to=file

#[derive(Clone, Debug, serde::Serialize, serde::Deserialize)]
pub struct EmitFileCase {
	/// file names touched one per batch (lengths vary so that a later batch is shorter than an earlier one)
	pub names: Vec<String>,
	/// "file" or "stdio"
	pub stdio: bool,
	/// --on-busy-update=queue with a command that keeps running for 0.6 s after storing what it was handed:
	/// every file is created while the previous run is still under way, so the run that is handed it is a
	/// *queued* one
	#[serde(default)]
	pub queue: bool,
}

fn run_emit_file(c: &EmitFileCase) -> Outcome {
	use std::time::{Duration, Instant};
	let mut o = Outcome::pass();
	let tmp = tempfile::Builder::new().prefix("vh-c17e-").tempdir_in(super::c18::scratch()).unwrap();
	let root = tmp.path().canonicalize().unwrap();
	let watched = root.join("watched");
	let out = root.join("out");
	std::fs::create_dir_all(&watched).unwrap();
	std::fs::create_dir_all(&out).unwrap();
	// the command stores what it was handed under out/<number of earlier runs>
	let script = if c.stdio {
		format!("n=$(ls {0} | wc -l); cat > {0}/$n.tmp; mv {0}/$n.tmp {0}/$n", out.display())
	} else {
		format!("n=$(ls {0} | wc -l); cp \"$WATCHEXEC_EVENTS_FILE\" {0}/$n.tmp; mv {0}/$n.tmp {0}/$n", out.display())
	};
	let script = if c.queue { format!("{script}; sleep 0.6") } else { script };
	let mut child = match std::process::Command::new(super::c18::wx_path())
		.current_dir(&root)
		.env("HOME", &root)
		.arg("--quiet")
		.arg("-w")
		.arg(&watched)
		.arg("--debounce=60ms")
		.arg(if c.queue { "--on-busy-update=queue" } else { "--on-busy-update=do-nothing" })
		.arg(format!("--emit-events-to={}", if c.stdio { "stdio" } else { "file" }))
		.arg("--shell=sh")
		.arg("--")
		.arg(&script)
		.stdin(std::process::Stdio::null())
		.stdout(std::process::Stdio::null())
		.stderr(std::process::Stdio::null())
		.spawn()
	{
		Ok(c) => c,
		Err(e) => {
			o.fail("env:wx-spawn", e.to_string());
			return o;
		}
	};
	let runs = |out: &std::path::Path| std::fs::read_dir(out).map_or(0, |d| d.filter_map(Result::ok).filter(|e| !e.file_name().to_string_lossy().ends_with(".tmp")).count());
	let wait_runs = |n: usize, ms: u64| {
		let until = Instant::now() + Duration::from_millis(ms);
		while Instant::now() < until && runs(&out) < n {
			std::thread::sleep(Duration::from_millis(10));
		}
		runs(&out) >= n
	};
	let finish = |child: &mut std::process::Child| {
		let _ = child.kill();
		let _ = child.wait();
	};
	if !wait_runs(1, 8_000) {
		finish(&mut child);
		o.fail("no-run-at-startup", format!("the command did not run at start-up within 8 s\ncase {c:?}"));
		return o;
	}
	std::thread::sleep(Duration::from_millis(300));
	let mut expect: Vec<(usize, String)> = Vec::new();
	for (i, name) in c.names.iter().enumerate() {
		let before = runs(&out);
		let p = watched.join(format!("{name}{i}"));
		std::fs::write(&p, b"x").unwrap();
		if !wait_runs(before + 1, 6_000) {
			finish(&mut child);
			o.fail("e2e:change-not-followed-by-a-run", format!("no run within 6 s of creating {p:?}\ncase {c:?}"));
			return o;
		}
		// let a possible second batch of the same write (close-write after create) come and go
		std::thread::sleep(Duration::from_millis(400));
		expect.push((before, p.to_string_lossy().into_owned()));
		let _ = before;
	}
	finish(&mut child);
	o.nontrivial = c.names.windows(2).any(|w| w[1].len() < w[0].len());
	if o.nontrivial {
		o.label("later-batch-shorter");
	}
	if c.queue {
		o.label("queued-runs");
	}
	// every stored hand-over: each line is "<kind>:<path>" and names only the file touched in that round
	let total = runs(&out);
	let dump = |k: usize, text: &str| format!("run {k} was handed {text:?}\ncase {c:?}\nfiles touched per round (first run index, path): {expect:?}");
	for k in 1..total {
		let text = std::fs::read_to_string(out.join(k.to_string())).unwrap_or_default();
		let round = expect.iter().rev().find(|(first, _)| *first <= k).map(|(_, p)| p.clone()).unwrap_or_default();
		for line in text.lines() {
			let ok = ["create:", "modify:", "rename:", "remove:", "other:", "access:"].iter().any(|pre| line.strip_prefix(pre).map_or(false, |p| p == round));
			if !ok {
				o.fail(
					"emit-file:line-not-from-this-batch",
					format!("a line is not '<kind>:<path>' for the file touched in that round ({round:?}): {line:?}\n{}", dump(k, &text)),
				);
				return o;
			}
		}
		if !text.is_empty() && !text.ends_with('\n') {
			o.fail("emit-file:line-not-from-this-batch", format!("the text does not end with a newline\n{}", dump(k, &text)));
			return o;
		}
	}
	// the run caused by a round's change (the first one after it) is handed that change
	for (first, path) in &expect {
		if *first >= total {
			continue;
		}
		let text = std::fs::read_to_string(out.join(first.to_string())).unwrap_or_default();
		if !text.lines().any(|l| l.split_once(':').map_or(false, |(_, p)| p == path)) {
			o.fail("emit-file:run-not-handed-the-change-that-caused-it", format!("run {first} was caused by the creation of {path:?} but no line it was handed names that path\n{}", dump(*first, &text)));
			return o;
		}
	}
	o
}

pub fn check(e: &Engine) {
	e.explore(
		"simple-format",
		LegOpts::det(e.tier.pick(30_000, 600_000), "CLI events_to_simple_format / emits_to_environment on generated batches: line list equals the reference (events, then paths, then kinds), label spelling per kind accepts documented and implemented forms"),
		&strategy,
		&run,
	);
	if !super::c18::wx_path().exists() {
		e.inconclusive("wx binary not built next to vcheck");
		return;
	}
	e.explore(
		"emit-file-e2e",
		LegOpts::realtime(
			e.tier.pick(12, 200),
			6,
			"the real CLI with --emit-events-to=file (or stdio) running a command that stores what it is handed; 2-4 files with names of very different lengths are created one per round, so that later batches are shorter than earlier ones: every line handed to every run is '<kind>:<path>' for the file of that round, nothing is left over from an earlier batch, and the first run after each creation is handed a line naming that file; in half of the cases with --on-busy-update=queue and a command that keeps running for 0.6 s, so that every file is created while the previous run is under way and the run that is handed it is a queued one; non-trivial = some batch is shorter than the one before",
		),
		&|| {
			(proptest::collection::vec(prop_oneof![Just("b".to_string()), Just("file_with_a_rather_long_name_".to_string()), Just("mid_name_".to_string()), Just("x".repeat(60))], 2..5), any::<bool>(), any::<bool>())
				.prop_map(|(names, stdio, queue)| EmitFileCase { names, stdio, queue })
				.boxed()
		},
		&run_emit_file,
	);
}
