//! C17 (CLI leg) — the line-based stdin/file format lists each (kind, path) pair of the batch
//! once per event, in event order. Reached through hook H2.

use proptest::prelude::*;

use super::{
	c16::all_kinds,
	c17::{name, Batch, EvSpec, PathSpec},
};
use crate::engine::{Engine, LegOpts, Outcome};
use std::path::PathBuf;
use watchexec_events::{Event, FileType, Tag};

fn simple_labels(full: &str) -> &'static [&'static str] {
	// the documented spellings and the implemented ones (the property does not fix them)
	if full.starts_with("Access(") {
		&["access"]
	} else if full.starts_with("Create(") {
		&["create"]
	} else if full.starts_with("Remove(") {
		&["remove"]
	} else if full.starts_with("Modify(Name(") {
		&["rename", "modify"]
	} else if full.starts_with("Modify(") {
		&["modify"]
	} else {
		&["other"]
	}
}

fn run(b: &Batch) -> Outcome {
	let mut o = Outcome::pass();
	let kinds = all_kinds();
	// tags in spec order: kinds first then paths (iteration is events, then paths, then kinds)
	let events: Vec<Event> = b
		.events
		.iter()
		.map(|e| {
			let mut tags = Vec::new();
			for k in &e.kinds {
				tags.push(Tag::FileEventKind(kinds[*k as usize % kinds.len()].0));
			}
			for p in &e.paths {
				tags.push(Tag::Path {
					path: PathBuf::from(&p.path),
					file_type: match p.ft % 3 {
						1 => Some(FileType::File),
						2 => Some(FileType::Dir),
						_ => None,
					},
				});
			}
			Event { tags, metadata: Default::default() }
		})
		.collect();
	let text = match watchexec_cli::verif::events_to_simple_format(&events) {
		Ok(t) => t,
		Err(e) => {
			o.fail("simple-format-error", e.to_string());
			return o;
		}
	};
	let lines: Vec<&str> = text.lines().collect();
	// reference list: events, then paths, then kinds in tag order; a pathed event without a kind
	// yields one "other" line per path
	let mut expected: Vec<(Vec<&'static str>, String)> = Vec::new();
	for e in &b.events {
		for p in &e.paths {
			if e.kinds.is_empty() {
				expected.push((vec!["other"], p.path.clone()));
			}
			for k in &e.kinds {
				expected.push((simple_labels(kinds[*k as usize % kinds.len()].1).to_vec(), p.path.clone()));
			}
		}
	}
	o.nontrivial = b.events.len() >= 2 && expected.len() >= 3;
	if lines.len() != expected.len() {
		o.fail(
			"simple-format:line-count",
			format!("{} lines, expected {} (one per (kind, path) pair per event)\nbatch {b:?}\ntext:\n{text}", lines.len(), expected.len()),
		);
		return o;
	}
	for (i, (line, (labels, path))) in lines.iter().zip(expected.iter()).enumerate() {
		let ok = labels.iter().any(|l| *line == format!("{l}:{path}"));
		if !ok {
			o.fail(
				"simple-format:line-differs",
				format!("line {i} is {line:?}, expected one of {labels:?} followed by ':{path}'\nbatch {b:?}\ntext:\n{text}"),
			);
			return o;
		}
	}
	// environment emitter: same content as the library summary, with the documented variable names
	let envs: Vec<(String, std::ffi::OsString)> = watchexec_cli::verif::emits_to_environment(&events).map(|v| (v.key, v.value)).collect();
	let lib = watchexec::paths::summarise_events_to_env(events.iter());
	if envs.len() != lib.len() || envs.iter().any(|(k, v)| {
		let short = k.strip_prefix("WATCHEXEC_").and_then(|k| k.strip_suffix("_PATH"));
		short.and_then(|s| lib.get(s)) != Some(v)
	}) {
		o.fail("environment-vars-differ", format!("emits_to_environment gave {envs:?}, library summary {lib:?}"));
	}
	o
}

fn strategy() -> BoxedStrategy<Batch> {
	let n = all_kinds().len() as u16;
	let path = proptest::collection::vec(name(), 1..4).prop_map(|c| format!("/r/{}", c.join("/")));
	let ev = (
		proptest::collection::vec((path, 0u8..3).prop_map(|(path, ft)| PathSpec { path, ft }), 0..4),
		proptest::collection::vec(0..n, 0..3),
	)
		.prop_map(|(paths, kinds)| EvSpec { paths, kinds, noise: false });
	proptest::collection::vec(ev, 0..7).prop_map(|events| Batch { events }).boxed()
}

pub fn check(e: &Engine) {
	e.explore(
		"simple-format",
		LegOpts::det(e.tier.pick(30_000, 600_000), "CLI events_to_simple_format / emits_to_environment on generated batches: line list equals the reference (events, then paths, then kinds), label spelling per kind accepts documented and implemented forms"),
		&strategy,
		&run,
	);
}
