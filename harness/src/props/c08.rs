//! C08 — quit always terminates and leaves no supervised process behind.
//! Real processes (vhelper), in-process Watchexec; the action handler runs a generated program.

use std::{
	path::{Path, PathBuf},
	sync::{Arc, Mutex},
	time::{Duration, Instant},
};

use proptest::prelude::*;
use serde::{Deserialize, Serialize};
use watchexec::{Config, Watchexec};
use watchexec_events::{Event, Priority, Tag};
use watchexec_signals::Signal;
use watchexec_supervisor::{
	command::{Command, Program, SpawnOptions},
	job::Job,
};

use super::c18::{helper_path, scratch, wx_path};
use crate::engine::{Engine, LegOpts, Outcome};

#[derive(Clone, Debug, Serialize, Deserialize)]
pub struct JobSpec {
	/// 0 plain, 1 grouped, 2 session
	pub wrap: u8,
	/// 0 exits on signal, 1 ignores signals, 2 exits but forks a group member that ignores, 3 ignores and forks a member that exits
	pub cmd: u8,
	/// 0 never started, 1 running, 2 finished (stopped), 3 running with an armed grace timer, 4 deleted, 5 graceful try-restart armed
	pub state: u8,
	pub hold_clone: bool,
	/// queue a run_async(sleep) of this many ms before the quit
	pub queue_sleep: u16,
	/// spawn hook: 0 none, 1 adds an environment variable, 2 replaces the inner command object by a fresh one
	/// (the same helper run through `/bin/sh -c 'exec "$0" "$@"'`, as a launcher wrapper would)
	#[serde(default)]
	pub hook: u8,
}

fn install_hook(job: &Job, spec: &JobSpec, cmd: &Arc<Command>) {
	match spec.hook % 3 {
		1 => {
			job.set_spawn_hook(|command, _| {
				command.command_mut().env("VERIF_HOOKED", "1");
			});
		}
		2 => {
			let Program::Exec { prog, args } = cmd.program.clone() else { return };
			job.set_spawn_hook(move |command, _| {
				let mut fresh = tokio::process::Command::new("/bin/sh");
				fresh.arg("-c").arg("exec \"$0\" \"$@\"").arg(&prog).args(&args).env("VERIF_HOOKED", "2");
				*command.command_mut() = fresh;
			});
		}
		_ => {}
	}
}

#[derive(Clone, Debug, Serialize, Deserialize)]
pub struct C08Case {
	pub jobs: Vec<JobSpec>,
	/// None = abort, Some(grace ms) = graceful with SIGTERM
	pub graceful: Option<u16>,
	/// request the quit in the same action that creates and starts the jobs
	pub same_action: bool,
	/// create every job in an action of its own (separate events, the worker may change threads in between)
	#[serde(default)]
	pub spread: bool,
	/// the graceful quit is requested with SIGKILL (`quit_gracefully(Signal::ForceStop, grace)`, the idiom for
	/// "stop everything now"): every process of every job, group members included, must be gone
	#[serde(default)]
	pub quit_force: bool,
}

const ARMED_GRACE_MS: u64 = 400;

pub struct Logs {
	pub dir: tempfile::TempDir,
}

impl Logs {
	pub fn new(prefix: &str) -> Self {
		Self {
			dir: tempfile::Builder::new().prefix(prefix).tempdir_in(scratch()).unwrap(),
		}
	}
	pub fn log(&self) -> PathBuf {
		self.dir.path().join("log")
	}
	pub fn lines(&self) -> Vec<Vec<String>> {
		std::fs::read_to_string(self.log())
			.unwrap_or_default()
			.lines()
			.map(|l| l.split_whitespace().map(str::to_string).collect())
			.collect()
	}
	/// (kind, pid) of every start / gstart line
	pub fn pids(&self) -> Vec<(String, i32)> {
		self.lines()
			.iter()
			.filter(|l| l.len() >= 2 && (l[0] == "start" || l[0] == "gstart"))
			.filter_map(|l| l[1].parse().ok().map(|p| (l[0].clone(), p)))
			.collect()
	}
}

pub fn alive(pid: i32) -> bool {
	match std::fs::read_to_string(format!("/proc/{pid}/stat")) {
		Err(_) => false,
		Ok(s) => {
			// state is the field after the ")" that closes the command name
			let st = s.rsplit(')').next().and_then(|r| r.split_whitespace().next()).unwrap_or("Z");
			st != "Z" && st != "X"
		}
	}
}

pub fn kill_all(pids: &[(String, i32)]) {
	for (_, p) in pids {
		unsafe {
			libc::kill(*p, libc::SIGKILL);
		}
	}
}

fn command(spec: &JobSpec, idx: usize, logs: &Logs) -> Arc<Command> {
	let mut args: Vec<String> = vec![
		"run".into(),
		"--log".into(),
		logs.log().to_string_lossy().into_owned(),
		"--lock".into(),
		logs.dir.path().join(format!("lock{idx}")).to_string_lossy().into_owned(),
		"--tag".into(),
		format!("job{idx}"),
		"--on-signal".into(),
		if matches!(spec.cmd % 4, 1 | 3) { "ignore".into() } else { "exit".into() },
	];
	match spec.cmd % 4 {
		2 => {
			args.push("--fork-grandchild".into());
			args.push("ignore".into());
		}
		3 => {
			args.push("--fork-grandchild".into());
			args.push("exit".into());
		}
		_ => {}
	}
	Arc::new(Command {
		program: Program::Exec { prog: helper_path(), args },
		options: SpawnOptions {
			grouped: spec.wrap % 3 == 1,
			session: spec.wrap % 3 == 2,
			..Default::default()
		},
	})
}

fn phase_event(k: u32) -> Event {
	Event {
		tags: vec![Tag::Process(k)],
		metadata: Default::default(),
	}
}

pub fn run(c: &C08Case) -> Outcome {
	let mut o = Outcome::pass();
	if c.jobs.iter().any(|j| j.hook % 3 == 2 && j.state % 6 != 0) {
		o.label("hook-replaces-command");
	}
	let logs = Logs::new("vh-c08-");
	let rt = tokio::runtime::Builder::new_multi_thread().worker_threads(if c.spread { 4 } else { 2 }).enable_all().build().unwrap();
	let held: Arc<Mutex<Vec<Job>>> = Arc::new(Mutex::new(Vec::new()));
	let jobs: Arc<Mutex<Vec<Option<Job>>>> = Arc::new(Mutex::new(vec![None; c.jobs.len()]));
	let started_expected = c.jobs.iter().filter(|j| j.state % 6 != 0).count();
	let res: Result<(u128, bool), String> = rt.block_on(async {
		let config = Config::default();
		config.throttle(Duration::from_millis(0));
		let specs = c.jobs.clone();
		let graceful = c.graceful;
		let quit_signal = if c.quit_force { Signal::ForceStop } else { Signal::Terminate };
		let same_action = c.same_action;
		let cmds: Vec<Arc<Command>> = specs.iter().enumerate().map(|(i, s)| command(s, i, &logs)).collect();
		let jobs2 = jobs.clone();
		let held2 = held.clone();
		config.on_action(move |mut action| {
			let phase = action.events.iter().find_map(crate::wxrun::id_of).unwrap_or(0);
			let do_quit = |action: &mut watchexec::action::ActionHandler| match graceful {
				None => action.quit(),
				Some(g) => action.quit_gracefully(quit_signal, Duration::from_millis(u64::from(g))),
			};
			match phase {
				10..=29 => {
					// one job per action
					let i = (phase - 10) as usize;
					if let Some(s) = specs.get(i) {
						let (_, job) = action.create_job(cmds[i].clone());
						install_hook(&job, s, &cmds[i]);
						if s.state % 6 != 0 {
							job.start();
						}
						if s.hold_clone {
							held2.lock().unwrap().push(job.clone());
						}
						jobs2.lock().unwrap()[i] = Some(job);
					}
				}
				1 => {
					for (i, s) in specs.iter().enumerate() {
						let (_, job) = action.create_job(cmds[i].clone());
						install_hook(&job, s, &cmds[i]);
						if s.state % 6 != 0 {
							job.start();
						}
						if s.hold_clone {
							held2.lock().unwrap().push(job.clone());
						}
						jobs2.lock().unwrap()[i] = Some(job);
					}
					if same_action {
						do_quit(&mut action);
					}
				}
				2 => {
					for (i, s) in specs.iter().enumerate() {
						let Some(job) = jobs2.lock().unwrap()[i].clone() else { continue };
						match s.state % 6 {
							2 => {
								job.stop();
							}
							3 => {
								job.stop_with_signal(Signal::User1, Duration::from_millis(ARMED_GRACE_MS));
							}
							4 => {
								job.delete();
							}
							5 => {
								job.try_restart_with_signal(Signal::User1, Duration::from_millis(ARMED_GRACE_MS));
							}
							_ => {}
						}
						if s.queue_sleep > 0 {
							let ms = u64::from(s.queue_sleep);
							job.run_async(move |_| Box::new(async move { tokio::time::sleep(Duration::from_millis(ms)).await }));
						}
					}
				}
				3 => do_quit(&mut action),
				_ => {}
			}
			action
		});
		let wx = Watchexec::with_config(config).map_err(|e| e.to_string())?;
		let mut main = wx.main();
		let spread = c.spread && !c.same_action;
		if spread {
			for i in 0..c.jobs.len() {
				wx.send_event(phase_event(10 + i as u32), Priority::Normal).await.map_err(|e| e.to_string())?;
				// let the action run and give the scheduler a chance to move the worker to another thread
				tokio::time::sleep(Duration::from_millis(3)).await;
				tokio::task::yield_now().await;
			}
		} else {
			wx.send_event(phase_event(1), Priority::Normal).await.map_err(|e| e.to_string())?;
		}
		let t_quit;
		if same_action {
			t_quit = Instant::now();
		} else {
			// wait for the helpers to report in
			let until = Instant::now() + Duration::from_secs(5);
			while logs.pids().iter().filter(|p| p.0 == "start").count() < started_expected && Instant::now() < until {
				tokio::time::sleep(Duration::from_millis(5)).await;
			}
			if logs.pids().iter().filter(|p| p.0 == "start").count() < started_expected {
				return Err("helpers did not start within 5 s".into());
			}
			wx.send_event(phase_event(2), Priority::Normal).await.map_err(|e| e.to_string())?;
			tokio::time::sleep(Duration::from_millis(100)).await;
			t_quit = Instant::now();
			wx.send_event(phase_event(3), Priority::Normal).await.map_err(|e| e.to_string())?;
		}
		let done = tokio::time::timeout(Duration::from_secs(12), &mut main).await;
		let took = t_quit.elapsed().as_millis();
		match done {
			Err(_) => {
				main.abort();
				Ok((took, false))
			}
			Ok(r) => {
				let ok = matches!(r, Ok(Ok(())));
				if !ok {
					return Err(format!("main ended with {r:?}"));
				}
				Ok((took, true))
			}
		}
	});
	// labels
	let running_at_quit = c.jobs.iter().filter(|j| matches!(j.state % 6, 1 | 3 | 5)).count();
	let armed = c.jobs.iter().any(|j| matches!(j.state % 6, 3 | 5));
	let ignoring = c.jobs.iter().any(|j| matches!(j.cmd % 4, 1 | 3) && matches!(j.state % 6, 1 | 3 | 5));
	let clones = c.jobs.iter().any(|j| j.hold_clone);
	o.label(if c.graceful.is_some() { "graceful" } else { "abort" });
	if armed {
		o.label("armed-timer");
	}
	if ignoring {
		o.label("signal-ignoring-command");
	}
	if c.same_action {
		o.label("quit-in-creating-action");
	}
	if c.jobs.iter().any(|j| j.cmd % 4 >= 2 && j.wrap % 3 != 0) {
		o.label("grouped-with-grandchild");
	}
	o.nontrivial = running_at_quit >= 1 && (armed || ignoring || clones || c.same_action);
	let (took, finished) = match res {
		Ok(x) => x,
		Err(e) => {
			kill_all(&logs.pids());
			o.fail("harness:run", format!("{e}\ncase {c:?}"));
			return o;
		}
	};
	let dump = |logs: &Logs| format!("\ncase: {c:?}\nhelper log:\n{}", std::fs::read_to_string(logs.log()).unwrap_or_default());
	// bound
	let bound_ms: u128 = match c.graceful {
		None => 1500,
		Some(g) => {
			let per_job = c
				.jobs
				.iter()
				.map(|j| {
					// with the quit requested in the creating action, phase 2 never runs: every started job is simply running
					let state = if c.same_action && j.state % 6 != 0 { 1 } else { j.state % 6 };
					let base = match state {
						3 | 5 => ARMED_GRACE_MS + if j.state % 6 == 5 { u64::from(g) } else { 0 },
						1 => {
							if matches!(j.cmd % 4, 1 | 3) {
								u64::from(g)
							} else {
								0
							}
						}
						_ => 0,
					};
					base + if c.same_action { 0 } else { u64::from(j.queue_sleep) }
				})
				.max()
				.unwrap_or(0);
			u128::from(per_job) + 800
		}
	};
	if !finished {
		kill_all(&logs.pids());
		o.fail(
			if c.graceful.is_some() { "graceful-quit-hangs" } else { "abort-quit-hangs" },
			format!("main task still running 12 s after the quit was requested{}", dump(&logs)),
		);
		return o;
	}
	if took > bound_ms {
		kill_all(&logs.pids());
		o.fail(
			if c.graceful.is_some() { "graceful-quit-too-slow" } else { "abort-quit-too-slow" },
			format!("main task finished {took} ms after the quit was requested, bound {bound_ms} ms{}", dump(&logs)),
		);
		return o;
	}
	// survivors
	std::thread::sleep(Duration::from_millis(300));
	drop(held);
	let pids = logs.pids();
	let mut survivors = Vec::new();
	for (kind, pid) in &pids {
		if !alive(*pid) {
			continue;
		}
		if kind == "start" {
			survivors.push((kind.clone(), *pid));
		} else if c.graceful.is_some() {
			// group members of grouped / session commands after a graceful quit
			let tag_grouped = logs.lines().iter().any(|l| l[0] == "gstart" && l[1] == pid.to_string() && l.get(3).and_then(|t| t.strip_prefix("job")).and_then(|n| n.parse::<usize>().ok()).map_or(false, |i| c.jobs[i].wrap % 3 != 0));
			if tag_grouped {
				survivors.push((kind.clone(), *pid));
			}
		}
	}
	kill_all(&pids);
	if let Some((kind, pid)) = survivors.first() {
		// the job a surviving group member belongs to
		let member_job = logs.lines().iter().find(|l| l[0] == "gstart" && l[1] == pid.to_string()).and_then(|l| l.get(3).and_then(|t| t.strip_prefix("job")).and_then(|n| n.parse::<usize>().ok()));
		let member_ignores = member_job.and_then(|i| c.jobs.get(i)).map_or(false, |j| j.cmd % 4 == 2);
		// an earlier graceful stop / try-restart with SIGTERM (states 3 and 5) already left the member behind
		let earlier_graceful_stop = member_job.and_then(|i| c.jobs.get(i)).map_or(false, |j| matches!(j.state % 6, 3 | 5));
		let sig = if kind == "start" {
			if c.graceful.is_some() { "child-survives-graceful-quit" } else { "child-survives-abort" }
		} else if member_ignores && (!c.quit_force || earlier_graceful_stop) {
			// the recorded open finding: the leader exits on the signal, the member ignores it
			"graceful-quit/grouped/group-member-ignores-stop-signal/survives"
		} else {
			// a member that does not ignore the signal, or a quit with SIGKILL, which cannot be ignored
			"graceful-quit/grouped/group-member-survives"
		};
		o.fail(sig, format!("process {pid} ({kind}) is still alive 300 ms after main returned{}", dump(&logs)));
	}
	o
}

fn strategy() -> BoxedStrategy<C08Case> {
	let job = (0u8..3, 0u8..4, 0u8..6, proptest::bool::weighted(0.3), prop_oneof![3 => Just(0u16), 1 => 20u16..200], prop_oneof![2 => Just(0u8), 1 => Just(1u8), 1 => Just(2u8)]).prop_map(|(wrap, cmd, state, hold_clone, queue_sleep, hook)| JobSpec {
		wrap,
		cmd,
		state,
		hold_clone,
		queue_sleep,
		hook,
	});
	let general = (proptest::collection::vec(job, 0..5), proptest::option::weighted(0.6, prop_oneof![Just(0u16), Just(100), Just(400), Just(900)]), (proptest::bool::weighted(0.25), proptest::bool::weighted(0.4)))
		.prop_map(|(jobs, graceful, (same_action, force))| {
			let spread = !same_action && jobs.len() % 2 == 0;
			// two fifths of the graceful quits use SIGKILL as the quit signal
			let quit_force = graceful.is_some() && force;
			C08Case { jobs, graceful, same_action, spread, quit_force }
		});
	// several jobs that all need their full grace period: the periods must run concurrently
	let slow = (proptest::collection::vec((0u8..3, prop_oneof![Just(1u8), Just(3)], prop_oneof![3 => Just(1u8), 1 => Just(3u8)], any::<bool>()), 2..5), prop_oneof![Just(400u16), Just(900)])
		.prop_map(|(js, g)| C08Case {
			jobs: js.into_iter().map(|(wrap, cmd, state, hold_clone)| JobSpec { wrap, cmd, state, hold_clone, queue_sleep: 0, hook: wrap % 3 }).collect(),
			graceful: Some(g),
			same_action: false,
			spread: g == 900,
			quit_force: false,
		});
	// many jobs, each created in an action of its own on a 4-worker runtime, clones held elsewhere, graceful quit
	let many = (proptest::collection::vec((0u8..3, 0u8..2, any::<bool>()), 5..9), prop_oneof![Just(100u16), Just(400)]).prop_map(|(js, g)| C08Case {
		jobs: js.into_iter().map(|(wrap, cmd, hold_clone)| JobSpec { wrap, cmd, state: 1, hold_clone, queue_sleep: 0, hook: cmd % 3 }).collect(),
		graceful: Some(g),
		same_action: false,
		spread: true,
		quit_force: false,
	});
	prop_oneof![6 => general, 2 => slow, 1 => many].boxed()
}

// ------------------------------------------------------------------ e2e: the CLI under SIGINT / SIGTERM

#[derive(Clone, Debug, Serialize, Deserialize)]
pub struct E2eCase {
	pub sigterm: bool,
	pub ignore: bool,
	pub wrap: u8,
	/// --map-signal: 0 none, 1 USR1:HUP, 2 the OTHER one of INT/TERM mapped to HUP, 3 the other one mapped to
	/// itself, 4 the other one discarded (empty right side). The signal that is sent is never mapped, so it
	/// must still quit.
	#[serde(default)]
	pub map: u8,
	/// the same signal is sent a second time 120 ms after the first
	#[serde(default)]
	pub twice: bool,
	/// --debounce in ms (0 = option not given): the quit must not wait for the debounce window
	#[serde(default)]
	pub debounce_ms: u16,
	/// how --stop-timeout is spelled: 0 "300ms", 1 "1" (unit-less: seconds), 2 "1s"
	#[serde(default)]
	pub timeout_spelling: u8,
}

fn run_e2e(c: &E2eCase) -> Outcome {
	let mut o = Outcome::pass();
	o.nontrivial = true;
	let logs = Logs::new("vh-c08e-");
	let mut cmd = std::process::Command::new(wx_path());
	cmd.current_dir(logs.dir.path())
		.env("HOME", logs.dir.path())
		.arg("--quiet")
		.arg(["--stop-timeout=300ms", "--stop-timeout=1", "--stop-timeout=1s"][usize::from(c.timeout_spelling % 3)])
		.arg(format!("--wrap-process={}", ["group", "session", "none"][(c.wrap % 3) as usize]));
	if c.debounce_ms > 0 {
		cmd.arg(format!("--debounce={}ms", c.debounce_ms));
		o.label("long-debounce");
	}
	let other = if c.sigterm { "INT" } else { "TERM" };
	match c.map % 5 {
		1 => {
			cmd.arg("--map-signal=USR1:HUP");
		}
		2 => {
			cmd.arg(format!("--map-signal={other}:HUP"));
		}
		3 => {
			cmd.arg(format!("--map-signal={other}:{other}"));
		}
		4 => {
			cmd.arg(format!("--map-signal={other}:"));
		}
		_ => {}
	}
	o.label(format!("map-signal:{}", ["none", "unrelated", "other->HUP", "other->itself", "other->discarded"][(c.map % 5) as usize]));
	cmd.arg("-n")
		.arg("--")
		.arg(helper_path())
		.args(["run", "--log"])
		.arg(logs.log())
		.arg("--lock")
		.arg(logs.dir.path().join("lock"))
		.args(["--on-signal", if c.ignore { "ignore" } else { "exit" }])
		.stdin(std::process::Stdio::null())
		.stderr(std::process::Stdio::null())
		.stdout(std::process::Stdio::null());
	let mut child = match cmd.spawn() {
		Ok(c) => c,
		Err(e) => {
			o.fail("env:wx-spawn", e.to_string());
			return o;
		}
	};
	let until = Instant::now() + Duration::from_secs(8);
	while logs.pids().is_empty() && Instant::now() < until {
		std::thread::sleep(Duration::from_millis(10));
	}
	if logs.pids().is_empty() {
		let _ = child.kill();
		let _ = child.wait();
		o.fail("harness:helper-not-started", format!("case {c:?}"));
		return o;
	}
	std::thread::sleep(Duration::from_millis(100));
	let t = Instant::now();
	unsafe {
		libc::kill(child.id() as i32, if c.sigterm { libc::SIGTERM } else { libc::SIGINT });
	}
	let mut exited = None;
	let mut second_sent = !c.twice;
	while t.elapsed() < Duration::from_secs(10) {
		if !second_sent && t.elapsed() >= Duration::from_millis(120) {
			second_sent = true;
			unsafe {
				libc::kill(child.id() as i32, if c.sigterm { libc::SIGTERM } else { libc::SIGINT });
			}
		}
		if let Ok(Some(st)) = child.try_wait() {
			exited = Some(st);
			break;
		}
		std::thread::sleep(Duration::from_millis(10));
	}
	let took = t.elapsed().as_millis();
	let pids = logs.pids();
	if exited.is_none() {
		let _ = child.kill();
		let _ = child.wait();
		kill_all(&pids);
		o.fail("cli-does-not-quit-on-signal", format!("watchexec still running 10 s after {}\ncase {c:?}", if c.sigterm { "SIGTERM" } else { "SIGINT" }));
		return o;
	}
	let stop_timeout_ms: u128 = if c.timeout_spelling % 3 == 0 { 300 } else { 1000 };
	let bound = if c.ignore { stop_timeout_ms + 2000 } else { 2000 };
	// a command that ignores the stop signal is only force-killed when the stop timeout is over (a second
	// interrupt escalates, so only judged for a single signal)
	if c.ignore && !c.twice && took + 30 < stop_timeout_ms {
		kill_all(&pids);
		o.fail("cli-killed-before-stop-timeout", format!("watchexec and its signal-ignoring command were gone {took} ms after the signal, stop timeout {stop_timeout_ms} ms\ncase {c:?}"));
		return o;
	}
	std::thread::sleep(Duration::from_millis(300));
	let survivors: Vec<_> = pids.iter().filter(|p| alive(p.1)).cloned().collect();
	kill_all(&pids);
	if took > bound {
		o.fail("cli-quit-too-slow", format!("watchexec exited {took} ms after the signal, bound {bound} ms\ncase {c:?}"));
	} else if !survivors.is_empty() {
		o.fail("child-survives-cli-quit", format!("{survivors:?} alive after watchexec exited\ncase {c:?}"));
	}
	o
}

pub fn check(e: &Engine) {
	e.assume("real time and real processes: time bounds carry 0.8 s (graceful, in-process) / 1.5 s (abort) / 2 s (CLI) of slack and a failure must reproduce 3 times; survivors are judged 300 ms after main returned through /proc (zombies count as gone)");
	if !helper_path().exists() || !wx_path().exists() {
		e.inconclusive("vhelper / wx binaries not built next to vcheck");
		return;
	}
	e.explore(
		"quit",
		LegOpts::realtime(
			e.tier.pick(220, 4_000),
			16,
			"0-4 jobs (plain / grouped / session; command exits on the signal, ignores it, or forks a group member that ignores / exits) in states never-started, running, finished, running with an armed grace timer (stop or try-restart), deleted; handle clones held outside, queued sleeps; abort or graceful quit (grace 0-900 ms, with SIGTERM or - two fifths of the graceful quits - SIGKILL as the quit signal, after which no group member may be left either), optionally requested in the same action that created the jobs, or with every job created in an action of its own on a 4-worker runtime (up to 8 jobs); non-trivial = >=1 job running at the quit and (armed timer | signal-ignoring command | held clone | quit in the creating action)",
		),
		&strategy,
		&run,
	);
	e.require_label("quit", "graceful", 0.3);
	e.require_label("quit", "armed-timer", 0.15);
	e.explore(
		"cli-signals",
		LegOpts::realtime(e.tier.pick(20, 300), 5, "the real CLI supervising a helper, interrupted with SIGINT or SIGTERM: exits within the stop timeout (spelled 300ms, 1s, or unit-less 1 = one second) + slack, not before it when the command ignores the signal, and leaves no process behind; command exits on / ignores the stop signal; wrap group / session / none; --map-signal absent, for an unrelated signal, or for the other one of INT/TERM (mapped to HUP, to itself, or discarded) - the signal that is sent is never the mapped one, so it must still quit; in a third of the cases with --debounce=6s, which the quit must not wait for; in 30% of the cases the signal is sent a second time 120 ms later, which must not delay the exit or leave anything behind"),
		&|| (any::<bool>(), any::<bool>(), 0u8..3, 0u8..5, proptest::bool::weighted(0.3), prop_oneof![2 => Just(0u16), 1 => Just(6000u16)], 0u8..3).prop_map(|(sigterm, ignore, wrap, map, twice, debounce_ms, timeout_spelling)| E2eCase { sigterm, ignore, wrap, map, twice, debounce_ms, timeout_spelling }).boxed(),
		&run_e2e,
	);
	let _ = Path::new("");
}
