//! C16 (CLI leg) — the JSON lines the real CLI writes with `--emit-events-to=json-file`, `json-stdio` and
//! `--only-emit-events --emit-events-to=json-stdio` parse back to events, re-serialise to the same bytes,
//! use the documented field names and values, and name exactly the paths touched in that round.

use std::{
	collections::BTreeSet,
	path::{Path, PathBuf},
	time::{Duration, Instant},
};

use proptest::prelude::*;
use serde::{Deserialize, Serialize};
use watchexec_events::Event;

use crate::engine::{Engine, LegOpts, Outcome};

#[derive(Clone, Debug, Serialize, Deserialize)]
pub enum FsOp {
	/// create a file with this name
	Create(u8),
	/// create a directory with this name
	Mkdir(u8),
	/// rename the entry made by the previous round to this name (create a file first if there is none)
	Rename(u8),
	/// remove the entry made by the previous round (create a file if there is none)
	Remove,
}

#[derive(Clone, Debug, Serialize, Deserialize)]
pub struct JsonE2eCase {
	/// 0 json-file, 1 json-stdio (both with a command that stores what it is handed), 2 --only-emit-events
	pub mode: u8,
	pub ops: Vec<FsOp>,
	/// only-emit mode: signals sent to the CLI after the file rounds (0 HUP, 1 USR1, 2 USR2, 3 QUIT)
	pub signals: Vec<u8>,
}

/// File names that need JSON escaping, are long, or are short (so that a later batch is shorter than an earlier one).
const NAMES: &[&str] = &[
	"b",
	"file with spaces",
	"quote\"and\\backslash",
	"tab\there",
	"line\nbreak",
	"ünï-cødé-名前-🦀",
	"a_rather_long_name_that_makes_the_json_line_considerably_longer_than_the_others_0123456789",
	"{\"tags\":[]}",
	"ctrl\u{1}\u{7f}",
	"x.rs",
];

const KINDS: &[&str] = &["path", "fs", "source", "keyboard", "process", "signal", "completion"];

fn check_line(line: &str, allowed: &BTreeSet<String>, o: &mut Outcome, ctx: &dyn Fn() -> String) -> Option<serde_json::Value> {
	let v: serde_json::Value = match serde_json::from_str(line) {
		Ok(v) => v,
		Err(e) => {
			o.fail("cli-json:line-is-not-json", format!("{e}: {line:?}\n{}", ctx()));
			return None;
		}
	};
	let ev: Event = match serde_json::from_str(line) {
		Ok(v) => v,
		Err(e) => {
			o.fail("cli-json:line-is-not-an-event", format!("{e}: {line:?}\n{}", ctx()));
			return None;
		}
	};
	let again = serde_json::to_string(&ev).unwrap_or_default();
	if again != line {
		o.fail("cli-json:not-a-fixed-point", format!("the line parses to an event that serialises differently\nline  {line:?}\nagain {again:?}\n{}", ctx()));
		return None;
	}
	let Some(obj) = v.as_object() else {
		o.fail("cli-json:undocumented-shape", format!("not an object: {line:?}\n{}", ctx()));
		return None;
	};
	if obj.keys().any(|k| k != "tags" && k != "metadata") {
		o.fail("cli-json:undocumented-shape", format!("top-level keys other than tags / metadata: {line:?}\n{}", ctx()));
		return None;
	}
	let tags = obj.get("tags").and_then(|t| t.as_array()).cloned().unwrap_or_default();
	if tags.is_empty() {
		o.fail("cli-json:empty-event-emitted", format!("an event without tags was written: {line:?}\n{}", ctx()));
		return None;
	}
	for t in &tags {
		let kind = t.get("kind").and_then(|k| k.as_str()).unwrap_or("");
		if !KINDS.contains(&kind) {
			o.fail("cli-json:undocumented-shape", format!("tag kind {kind:?} is not a documented one: {line:?}\n{}", ctx()));
			return None;
		}
		match kind {
			"path" => {
				let Some(p) = t.get("absolute").and_then(|p| p.as_str()) else {
					o.fail("cli-json:undocumented-shape", format!("path tag without a string 'absolute': {line:?}\n{}", ctx()));
					return None;
				};
				if !allowed.contains(p) {
					o.fail("cli-json:path-not-from-this-batch", format!("the event names {p:?}, not a path touched in this round ({allowed:?}): {line:?}\n{}", ctx()));
					return None;
				}
				if let Some(ft) = t.get("filetype") {
					if !["dir", "file", "symlink", "other"].contains(&ft.as_str().unwrap_or("")) {
						o.fail("cli-json:undocumented-shape", format!("filetype {ft} is not a documented one: {line:?}\n{}", ctx()));
						return None;
					}
				}
			}
			"fs" => {
				let simple = t.get("simple").and_then(|p| p.as_str()).unwrap_or("");
				let full = t.get("full").and_then(|p| p.as_str()).unwrap_or("");
				if !["access", "create", "modify", "remove", "other"].contains(&simple) || full.is_empty() {
					o.fail("cli-json:undocumented-shape", format!("fs tag with simple {simple:?} / full {full:?}: {line:?}\n{}", ctx()));
					return None;
				}
				// the full form starts with the simple one, capitalised (Any / Other are 'other')
				let head = full.split('(').next().unwrap_or("").to_lowercase();
				let want = if head == "any" { "other".to_string() } else { head };
				if want != simple {
					o.fail("cli-json:simple-and-full-disagree", format!("fs tag simple {simple:?} next to full {full:?}: {line:?}\n{}", ctx()));
					return None;
				}
			}
			"source" => {
				let s = t.get("source").and_then(|p| p.as_str()).unwrap_or("");
				if !["filesystem", "keyboard", "mouse", "os", "time", "internal"].contains(&s) {
					o.fail("cli-json:undocumented-shape", format!("source {s:?}: {line:?}\n{}", ctx()));
					return None;
				}
			}
			_ => {}
		}
	}
	Some(v)
}

fn run(c: &JsonE2eCase) -> Outcome {
	let mut o = Outcome::pass();
	let tmp = tempfile::Builder::new().prefix("vh-c16e-").tempdir_in(super::c18::scratch()).unwrap();
	let root = tmp.path().canonicalize().unwrap();
	let watched = root.join("watched");
	let out = root.join("out");
	std::fs::create_dir_all(&watched).unwrap();
	std::fs::create_dir_all(&out).unwrap();
	let stdout_path = root.join("stdout");
	let mut cmd = std::process::Command::new(super::c18::wx_path());
	cmd.current_dir(&root).env("HOME", &root).arg("--quiet").arg("-w").arg(&watched).arg("--debounce=60ms");
	let only = c.mode % 3 == 2;
	if only {
		cmd.arg("--only-emit-events").arg("--emit-events-to=json-stdio");
		cmd.stdout(std::fs::File::create(&stdout_path).unwrap());
	} else {
		let stdio = c.mode % 3 == 1;
		let script = if stdio {
			format!("n=$(ls {0} | wc -l); cat > {0}/$n.tmp; mv {0}/$n.tmp {0}/$n", out.display())
		} else {
			format!("n=$(ls {0} | wc -l); cp \"$WATCHEXEC_EVENTS_FILE\" {0}/$n.tmp; mv {0}/$n.tmp {0}/$n", out.display())
		};
		cmd.arg(format!("--emit-events-to={}", if stdio { "json-stdio" } else { "json-file" })).arg("--shell=sh").arg("--").arg(script);
		cmd.stdout(std::process::Stdio::null());
	}
	let mut child = match cmd.stdin(std::process::Stdio::null()).stderr(std::process::Stdio::null()).spawn() {
		Ok(c) => c,
		Err(e) => {
			o.fail("env:wx-spawn", e.to_string());
			return o;
		}
	};
	let runs = |out: &Path| std::fs::read_dir(out).map_or(0, |d| d.filter_map(Result::ok).filter(|e| !e.file_name().to_string_lossy().ends_with(".tmp")).count());
	let lines_now = |p: &Path| -> Vec<String> {
		let t = std::fs::read_to_string(p).unwrap_or_default();
		// only complete lines
		let end = t.rfind('\n').map_or(0, |i| i + 1);
		t[..end].lines().filter(|l| !l.is_empty()).map(str::to_string).collect()
	};
	let progress = |out: &Path| if only { lines_now(&stdout_path).len() } else { runs(out) };
	let wait_progress = |n: usize, ms: u64| {
		let until = Instant::now() + Duration::from_millis(ms);
		while Instant::now() < until && progress(&out) < n {
			std::thread::sleep(Duration::from_millis(10));
		}
		progress(&out) >= n
	};
	let finish = |child: &mut std::process::Child| {
		let _ = child.kill();
		let _ = child.wait();
	};
	if only {
		// readiness: touch a sentinel until it is reported
		let sentinel = watched.join("ready-sentinel");
		let until = Instant::now() + Duration::from_secs(10);
		let mut k = 0;
		while progress(&out) == 0 {
			if Instant::now() > until {
				finish(&mut child);
				o.fail("e2e:not-ready", format!("nothing printed within 10 s of touching a sentinel\ncase {c:?}"));
				return o;
			}
			std::fs::write(&sentinel, format!("{k}")).unwrap();
			k += 1;
			std::thread::sleep(Duration::from_millis(150));
		}
		std::thread::sleep(Duration::from_millis(500));
	} else {
		if !wait_progress(1, 8_000) {
			finish(&mut child);
			o.fail("no-run-at-startup", format!("the command did not run at start-up within 8 s\ncase {c:?}"));
			return o;
		}
		std::thread::sleep(Duration::from_millis(300));
	}
	// rounds: (progress count before the op, paths the op touches)
	let mut rounds: Vec<(usize, BTreeSet<String>)> = Vec::new();
	let mut last: Option<PathBuf> = None;
	let s = |p: &Path| p.to_string_lossy().into_owned();
	for (i, op) in c.ops.iter().enumerate() {
		let before = progress(&out);
		let fresh = |n: u8| watched.join(format!("{}{i}", NAMES[n as usize % NAMES.len()]));
		let mut touched = BTreeSet::new();
		match op {
			FsOp::Create(n) => {
				let p = fresh(*n);
				std::fs::write(&p, b"x").unwrap();
				touched.insert(s(&p));
				last = Some(p);
			}
			FsOp::Mkdir(n) => {
				let p = fresh(*n);
				std::fs::create_dir(&p).unwrap();
				touched.insert(s(&p));
				last = Some(p);
			}
			FsOp::Rename(n) => match last.take() {
				Some(from) => {
					let to = fresh(*n);
					std::fs::rename(&from, &to).unwrap();
					touched.insert(s(&from));
					touched.insert(s(&to));
					last = Some(to);
				}
				None => {
					let p = fresh(*n);
					std::fs::write(&p, b"x").unwrap();
					touched.insert(s(&p));
					last = Some(p);
				}
			},
			FsOp::Remove => match last.take() {
				Some(p) => {
					if p.is_dir() {
						std::fs::remove_dir(&p).unwrap();
					} else {
						std::fs::remove_file(&p).unwrap();
					}
					touched.insert(s(&p));
				}
				None => {
					let p = fresh(0);
					std::fs::write(&p, b"x").unwrap();
					touched.insert(s(&p));
					last = Some(p);
				}
			},
		}
		if !wait_progress(before + 1, 6_000) {
			finish(&mut child);
			o.fail("e2e:change-not-followed-by-output", format!("nothing within 6 s of {op:?} on {touched:?}\ncase {c:?}"));
			return o;
		}
		// let a possible second batch of the same operation come and go
		std::thread::sleep(Duration::from_millis(400));
		rounds.push((before, touched));
	}
	// signals (only-emit mode): each is printed as a signal event
	let mut sig_rounds: Vec<(usize, &'static str)> = Vec::new();
	if only {
		for sg in &c.signals {
			let (sig, name) = [(libc::SIGHUP, "SIGHUP"), (libc::SIGUSR1, "SIGUSR1"), (libc::SIGUSR2, "SIGUSR2"), (libc::SIGQUIT, "SIGQUIT")][*sg as usize % 4];
			let before = progress(&out);
			unsafe {
				libc::kill(child.id() as i32, sig);
			}
			if !wait_progress(before + 1, 6_000) {
				finish(&mut child);
				o.fail("e2e:signal-not-followed-by-output", format!("nothing printed within 6 s of sending {name}\ncase {c:?}"));
				return o;
			}
			std::thread::sleep(Duration::from_millis(350));
			sig_rounds.push((before, name));
		}
	}
	finish(&mut child);
	o.nontrivial = c.ops.len() >= 2;
	if only {
		o.label("only-emit-events");
	}
	if c.ops.iter().any(|op| matches!(op, FsOp::Rename(_))) {
		o.label("rename-round");
	}
	let describe = |rounds: &Vec<(usize, BTreeSet<String>)>| format!("case {c:?}\nrounds (first output index, paths touched): {rounds:?}");
	// collect the texts: per run (command modes) or the whole stdout (only-emit mode)
	let units: Vec<(usize, Vec<String>, bool)> = if only {
		lines_now(&stdout_path).into_iter().enumerate().map(|(k, l)| (k, vec![l], true)).collect()
	} else {
		(1..runs(&out))
			.map(|k| {
				let text = std::fs::read_to_string(out.join(k.to_string())).unwrap_or_default();
				let complete = text.is_empty() || text.ends_with('\n');
				(k, text.lines().map(str::to_string).collect(), complete)
			})
			.collect()
	};
	let first_real = rounds.first().map_or(usize::MAX, |r| r.0);
	let mut seen_paths: BTreeSet<String> = BTreeSet::new();
	for (k, lines, complete) in &units {
		if *k < first_real {
			continue; // readiness sentinel output
		}
		let ctx = || format!("output unit {k}: {lines:?}\n{}", describe(&rounds));
		if !complete {
			o.fail("cli-json:truncated", format!("the text does not end with a newline\n{}", ctx()));
			return o;
		}
		// which round does this unit belong to: the last round that began at or before it
		let sig = sig_rounds.iter().rev().find(|(first, _)| first <= k);
		let allowed = if sig.is_some() { BTreeSet::new() } else { rounds.iter().rev().find(|(first, _)| first <= k).map(|r| r.1.clone()).unwrap_or_default() };
		if !only && lines.is_empty() && rounds.iter().any(|(first, _)| first == k) {
			o.fail("cli-json:run-handed-no-event", format!("the run caused by a change was handed no event\n{}", ctx()));
			return o;
		}
		for line in lines {
			let Some(v) = check_line(line, &allowed, &mut o, &ctx) else { return o };
			for t in v["tags"].as_array().into_iter().flatten() {
				if let Some(p) = t.get("absolute").and_then(|p| p.as_str()) {
					seen_paths.insert(p.to_string());
				}
			}
			if let Some((_, name)) = sig {
				let names: Vec<&str> = v["tags"].as_array().into_iter().flatten().filter(|t| t["kind"] == "signal").filter_map(|t| t["signal"].as_str()).collect();
				// the pinned snapshots spell signals "SIGHUP", the CLI help 'hangup': either spelling is accepted
				let help_spelling = match *name {
					"SIGHUP" => "hangup",
					"SIGUSR1" => "user1",
					"SIGUSR2" => "user2",
					_ => "quit",
				};
				if names != [*name] && names != [help_spelling] {
					o.fail("cli-json:signal-event-differs", format!("after sending {name} the printed event carries signals {names:?}: {line:?}\n{}", ctx()));
					return o;
				}
			}
		}
	}
	// every round's newly made path was named by some event (created / renamed-to / removed entries)
	for (_, touched) in &rounds {
		if !touched.iter().any(|p| seen_paths.contains(p)) {
			o.fail("cli-json:change-never-reported", format!("no event names any of {touched:?}\nall output: {units:?}\n{}", describe(&rounds)));
			return o;
		}
	}
	for (first, name) in &sig_rounds {
		if !units.iter().any(|(k, _, _)| k >= first) {
			o.fail("cli-json:signal-event-differs", format!("no output for signal {name}\n{}", describe(&rounds)));
			return o;
		}
	}
	o
}

pub fn check(e: &Engine) {
	if !super::c18::wx_path().exists() {
		e.inconclusive("wx binary not built next to vcheck");
		return;
	}
	e.explore(
		"cli-json-e2e",
		LegOpts::realtime(
			e.tier.pick(18, 300),
			6,
			"the real CLI with --emit-events-to=json-file / json-stdio (running a command that stores what it is handed) or --only-emit-events --emit-events-to=json-stdio (stdout captured); 2-5 rounds of create / mkdir / rename / remove on names that need JSON escaping (quotes, backslash, tab, newline, control characters, non-ASCII, a name that is itself JSON) and of very different lengths, then (only-emit mode) 0-2 signals: every line parses to an Event and re-serialises to the same bytes, has only the documented keys, tag kinds, simple/full and filetype values, names only the paths touched in that round, nothing is left over from an earlier batch, every change is named by some event, and a signal is printed as exactly that signal; non-trivial = 2 or more rounds",
		),
		&|| {
			let op = prop_oneof![3 => (0u8..10).prop_map(FsOp::Create), 1 => (0u8..10).prop_map(FsOp::Mkdir), 2 => (0u8..10).prop_map(FsOp::Rename), 1 => Just(FsOp::Remove)];
			(0u8..3, proptest::collection::vec(op, 2..6), proptest::collection::vec(0u8..4, 0..3)).prop_map(|(mode, ops, signals)| JsonE2eCase { mode, ops, signals }).boxed()
		},
		&run,
	);
}
