//! C03 — ignore files apply only inside their directory; the nearest match wins.

use std::path::{Path, PathBuf};

use ignore_files::{IgnoreFile, IgnoreFilter};
use proptest::prelude::*;
use serde::{Deserialize, Serialize};
use watchexec::filter::Filterer;
use watchexec_events::{Event, FileType, Priority, Tag};
use watchexec_filterer_ignore::IgnoreFilterer;

use crate::{
	engine::{idx, Engine, LegOpts, Outcome},
	gitmodel::{ignored_git, parse_line, verdict_nearest_first, MFile, Verdict},
	patgen,
};

#[derive(Clone, Debug, Serialize, Deserialize)]
pub struct IgFile {
	/// directory (relative components under the origin) the file lives and applies in
	pub dir: Vec<String>,
	/// applies globally (applies_in: None) instead
	pub global: bool,
	pub lines: Vec<String>,
	/// how the directory the file applies in is spelled in IgnoreFile::applies_in: 0 plain, 1 with a "."
	/// component, 2 with a "name/.." detour, 3 with a trailing separator (all name the same directory)
	#[serde(default)]
	pub spelling: u8,
}

#[derive(Clone, Debug, Serialize, Deserialize)]
pub struct Probe {
	pub comps: Vec<String>,
	pub is_dir: bool,
	pub outside: bool,
}

#[derive(Clone, Debug, Serialize, Deserialize)]
pub struct C03Case {
	pub files: Vec<IgFile>,
	pub probes: Vec<Probe>,
	/// swaps applied to the listed order for the permutation relation (pairs of indices)
	pub swaps: Vec<(u16, u16)>,
	/// number of local files passed to new() in the mixed construction route (rest via add_file)
	pub split: u16,
	/// file removed for the scoping relation
	pub remove: u16,
	/// the origin is an existing directory directly below the filesystem root (`/tmp`), as a project at
	/// `/app` in a container is; nothing is created there: the tree is virtual (the filter never touches the
	/// probed paths) and the ignore files are stored elsewhere
	#[serde(default)]
	pub shallow: bool,
}

/// An existing directory whose parent is `/` (canonical), if there is one.
fn shallow_origin() -> Option<PathBuf> {
	["/tmp", "/dev", "/run", "/usr"].iter().filter_map(|p| std::fs::canonicalize(p).ok()).find(|p| p.is_dir() && p.components().count() == 2)
}

fn scratch() -> PathBuf {
	if Path::new("/dev/shm").is_dir() {
		PathBuf::from("/dev/shm")
	} else {
		std::env::temp_dir()
	}
}

struct Built {
	_tmp: tempfile::TempDir,
	origin: PathBuf,
	files: Vec<IgnoreFile>,
	mfiles: Vec<MFile>,
}

fn materialise(c: &C03Case) -> Built {
	let tmp = tempfile::Builder::new().prefix("vh-c03-").tempdir_in(scratch()).unwrap();
	let root = tmp.path().canonicalize().unwrap();
	let shallow = if c.shallow { shallow_origin() } else { None };
	let origin = shallow.clone().unwrap_or_else(|| root.join("o"));
	std::fs::create_dir_all(root.join("o")).unwrap();
	let store = root.join("store");
	std::fs::create_dir_all(&store).unwrap();
	let gdir = root.join("globals");
	std::fs::create_dir_all(&gdir).unwrap();
	let mut files = Vec::new();
	let mut mfiles = Vec::new();
	for (i, f) in c.files.iter().enumerate() {
		let (path, applies_in) = if f.global {
			(gdir.join(format!("g{i}")), None)
		} else {
			let mut d = origin.clone();
			for comp in &f.dir {
				d.push(comp);
			}
			if shallow.is_some() {
				(store.join(format!("ignore{i}")), Some(d))
			} else {
				std::fs::create_dir_all(&d).unwrap();
				(d.join(format!(".ignore{i}")), Some(d))
			}
		};
		// the model keeps the plain directory; the implementation is handed the generated spelling of it
		let spelled = applies_in.as_ref().map(|d| {
			let last = d.file_name().map(|n| n.to_os_string());
			match (f.spelling % 4, last) {
				(1, Some(n)) => d.parent().unwrap().join(".").join(n),
				(2, Some(n)) => d.join("..").join(n),
				(3, _) => {
					let mut s = d.as_os_str().to_owned();
					s.push("/");
					PathBuf::from(s)
				}
				_ => d.clone(),
			}
		});
		std::fs::write(&path, f.lines.join("\n") + "\n").unwrap();
		mfiles.push(MFile {
			applies_in: applies_in.clone(),
			lines: f.lines.iter().filter_map(|l| parse_line(l)).collect(),
		});
		files.push(IgnoreFile {
			path,
			applies_in: spelled,
			applies_to: None,
		});
	}
	Built {
		_tmp: tmp,
		origin,
		files,
		mfiles,
	}
}

fn probe_path(origin: &Path, p: &Probe) -> PathBuf {
	// outside the origin: half of the probes go to a directory whose name has the origin's name as a string
	// prefix (<root>/o-old next to <root>/o), the others far away
	let mut b = if !p.outside {
		origin.to_path_buf()
	} else if p.comps.len() % 2 == 0 {
		let mut s = origin.as_os_str().to_owned();
		s.push("-old");
		PathBuf::from(s)
	} else {
		PathBuf::from("/outside-vh")
	};
	for c in &p.comps {
		b.push(c);
	}
	b
}

/// (ignored according to the event filterer, pass according to check_dir for directories)
fn impl_verdict(filter: &IgnoreFilter, path: &Path, is_dir: bool) -> (bool, Option<bool>) {
	let ev = Event {
		tags: vec![Tag::Path {
			path: path.to_path_buf(),
			file_type: Some(if is_dir { FileType::Dir } else { FileType::File }),
		}],
		metadata: Default::default(),
	};
	let pass = IgnoreFilterer(filter.clone()).check_event(&ev, Priority::Normal).unwrap_or(true);
	let cd = if is_dir { Some(filter.check_dir(path)) } else { None };
	(!pass, cd)
}

fn verdicts(filter: &IgnoreFilter, origin: &Path, probes: &[Probe]) -> Vec<bool> {
	probes.iter().map(|p| impl_verdict(filter, &probe_path(origin, p), p.is_dir).0).collect()
}

pub fn run(c: &C03Case) -> Outcome {
	let mut o = Outcome::pass();
	if c.files.is_empty() || c.probes.is_empty() {
		return o;
	}
	let rt = tokio::runtime::Builder::new_current_thread().enable_all().build().unwrap();
	let b = materialise(c);
	let origin = b.origin.clone();
	if c.shallow && origin.components().count() == 2 {
		o.label("origin-directly-below-the-root");
	}
	if c.files.len() > 20 {
		o.label("more-than-20-ignore-files");
	}
	let build_new = |files: &[IgnoreFile]| rt.block_on(IgnoreFilter::new(&origin, files));
	let f0 = match build_new(&b.files) {
		Ok(f) => f,
		Err(e) => {
			o.fail("harness:filter-build", format!("{e:?}\ncase {c:?}"));
			return o;
		}
	};
	let dump = |what: String| format!("{what}\norigin: {origin:?}\ncase: {c:?}");

	// ---- labels
	let dirs_with_files: Vec<&Vec<String>> = c.files.iter().filter(|f| !f.global).map(|f| &f.dir).collect();
	let is_prefix_sibling = |probe: &Probe| -> bool {
		// some ignore file's directory is a textual-prefix sibling of one of the probe's ancestor dirs
		if probe.outside {
			return false;
		}
		dirs_with_files.iter().any(|d| {
			if d.is_empty() || d.len() > probe.comps.len() {
				return false;
			}
			let n = d.len();
			d[..n - 1] == probe.comps[..n - 1] && probe.comps[n - 1] != d[n - 1] && probe.comps[n - 1].starts_with(d[n - 1].as_str())
		})
	};
	let mut any_prefix_sibling = false;
	let mut any_two_on_chain = false;
	let mut any_neg_match = false;

	// ---- model comparison
	for (pi, p) in c.probes.iter().enumerate() {
		let path = probe_path(&origin, p);
		let (ignored, cd) = impl_verdict(&f0, &path, p.is_dir);
		if let Some(pass) = cd {
			if pass == ignored {
				o.fail("check-dir-disagrees-with-check-event", dump(format!("probe {pi} {p:?}: check_event says ignored={ignored}, check_dir says pass={pass}")));
				return o;
			}
		}
		if p.outside {
			continue;
		}
		if is_prefix_sibling(p) {
			any_prefix_sibling = true;
		}
		let on_chain = c.files.iter().filter(|f| f.global || p.comps.len() >= f.dir.len() && p.comps[..f.dir.len()] == f.dir[..]).count();
		if on_chain >= 2 {
			any_two_on_chain = true;
		}
		// unspecified: a directory vs an ignore file stored in that very directory
		if c.files.iter().any(|f| !f.global && f.dir == p.comps) {
			o.label("dir-vs-own-ignore-file(unspecified)");
			continue;
		}
		let v = verdict_nearest_first(&origin, &b.mfiles, &path, p.is_dir);
		if v == Verdict::Whitelist {
			any_neg_match = true;
		}
		let want = v == Verdict::Ignore;
		let git = ignored_git(&origin, &b.mfiles, &path, p.is_dir);
		if want != git {
			o.label("semantics-divergent(not-asserted)");
			continue;
		}
		if ignored != want {
			let sig = if is_prefix_sibling(p) {
				"scope:prefix-sibling-directory"
			} else if v == Verdict::Whitelist {
				"negation"
			} else if want {
				"missed-ignore"
			} else {
				"spurious-ignore"
			};
			o.fail(
				sig,
				dump(format!("probe {pi} {p:?} ({path:?}): implementation says ignored={ignored}, nearest-first evaluation says {v:?} (git agrees: ignored={git})")),
			);
			return o;
		}
	}
	if any_prefix_sibling {
		o.label("prefix-sibling-with-ignore-file");
	}
	if any_two_on_chain {
		o.label("2+files-on-chain");
	}
	if any_neg_match {
		o.label("negation-matches");
	}
	o.nontrivial = any_prefix_sibling || any_two_on_chain || any_neg_match;

	let base = verdicts(&f0, &origin, &c.probes);

	// ---- (iii) rebuilding from identical inputs gives identical verdicts
	let f0b = build_new(&b.files).unwrap();
	if verdicts(&f0b, &origin, &c.probes) != base {
		o.fail("rebuild-differs", dump("second construction from identical inputs gives different verdicts".into()));
		return o;
	}

	// ---- (ii) permutations that keep the relative order of same-directory files
	let mut order: Vec<usize> = (0..b.files.len()).collect();
	for (a, bb) in &c.swaps {
		let i = idx(*a, order.len());
		let j = idx(*bb, order.len());
		let (fi, fj) = (&c.files[order[i]], &c.files[order[j]]);
		let same_dir = (fi.global && fj.global) || (!fi.global && !fj.global && fi.dir == fj.dir);
		// swapping two entries may also reorder either of them relative to same-dir files in between
		let between_conflict = (i.min(j) + 1..i.max(j)).any(|k| {
			let fk = &c.files[order[k]];
			let sd = |x: &IgFile| (x.global && fk.global) || (!x.global && !fk.global && x.dir == fk.dir);
			sd(fi) || sd(fj)
		});
		if !same_dir && !between_conflict {
			order.swap(i, j);
		}
	}
	if order.iter().enumerate().any(|(k, v)| k != *v) {
		o.label("permuted");
		let permuted: Vec<IgnoreFile> = order.iter().map(|k| b.files[*k].clone()).collect();
		let fp = build_new(&permuted).unwrap();
		let vp = verdicts(&fp, &origin, &c.probes);
		if vp != base {
			let k = vp.iter().zip(base.iter()).position(|(a, b2)| a != b2).unwrap();
			o.fail(
				"listing-order-dependence",
				dump(format!("listing the files in order {order:?} changes the verdict of probe {k} {:?}: {} -> {}", c.probes[k], base[k], vp[k])),
			);
			return o;
		}
	}

	// ---- (iv) new(all) == new(globals + first k locals) + add_file(rest, in order)
	{
		let locals: Vec<usize> = (0..b.files.len()).filter(|k| !c.files[*k].global).collect();
		let split = idx(c.split, locals.len() + 1);
		let first: Vec<IgnoreFile> = (0..b.files.len())
			.filter(|k| c.files[*k].global || locals.iter().position(|l| l == k).map_or(false, |pos| pos < split))
			.map(|k| b.files[k].clone())
			.collect();
		let mut fm = build_new(&first).unwrap();
		let mut added = 0;
		for (pos, k) in locals.iter().enumerate() {
			if pos >= split {
				if let Err(e) = rt.block_on(fm.add_file(&b.files[*k])) {
					o.fail("harness:add-file", format!("{e:?}"));
					return o;
				}
				added += 1;
			}
		}
		if added > 0 {
			o.label("add_file-route");
			let vm = verdicts(&fm, &origin, &c.probes);
			if vm != base {
				let k = vm.iter().zip(base.iter()).position(|(a, b2)| a != b2).unwrap();
				o.fail(
					"add-file-differs-from-new",
					dump(format!("new({} files) + add_file({added}) differs from new(all) on probe {k} {:?}: {} vs {}", first.len(), c.probes[k], vm[k], base[k])),
				);
				return o;
			}
		}
	}

	// ---- (v) finish() then add_file(): finish() "makes it impossible to add new ignore files without re-compiling
	// the whole set" -- whether the late file takes effect is left open, but what was loaded before must stay:
	// every verdict equals the one without the late file or the one with it
	if b.files.len() >= 2 {
		let last = b.files.len() - 1;
		if let Ok(mut ff) = build_new(&b.files[..last]) {
			let without = verdicts(&ff, &origin, &c.probes);
			ff.finish();
			let _ = rt.block_on(ff.add_file(&b.files[last]));
			let after = verdicts(&ff, &origin, &c.probes);
			o.label("finish-then-add");
			for (k, p) in c.probes.iter().enumerate() {
				if p.outside {
					continue;
				}
				if after[k] != without[k] && after[k] != base[k] {
					o.fail(
						"finish-then-add:earlier-patterns-lost",
						dump(format!(
							"new({last} files), finish(), add_file(file {last}): probe {k} {p:?} is ignored={} although it is ignored={} without the late file and ignored={} with all files loaded normally",
							after[k], without[k], base[k]
						)),
					);
					return o;
				}
			}
		}
	}
	// ---- (i) removing a file that applies in D never changes a verdict outside D
	{
		let k = idx(c.remove, b.files.len());
		// (the plain directory, not the spelling handed to the implementation)
		if let Some(d) = &b.mfiles[k].applies_in {
			let rest: Vec<IgnoreFile> = b.files.iter().enumerate().filter(|(i, _)| *i != k).map(|(_, f)| f.clone()).collect();
			let fr = build_new(&rest).unwrap();
			let vr = verdicts(&fr, &origin, &c.probes);
			for (pi, p) in c.probes.iter().enumerate() {
				let path = probe_path(&origin, p);
				if !path.starts_with(d) && vr[pi] != base[pi] {
					o.fail(
						"scope:file-affects-path-outside-its-directory",
						dump(format!(
							"removing the ignore file of {d:?} changes the verdict of {path:?} (not inside that directory): {} -> {}",
							base[pi], vr[pi]
						)),
					);
					return o;
				}
			}
		}
	}
	o
}

fn strategy() -> BoxedStrategy<C03Case> {
	patgen::alpha()
		.prop_flat_map(|al| {
			let dir = proptest::collection::vec(al.dir(), 0..3);
			let file = (dir, proptest::bool::weighted(0.12), proptest::collection::vec(al.pattern(0.3), 1..5), prop_oneof![5 => Just(0u8), 1 => Just(1u8), 1 => Just(2u8), 1 => Just(3u8)]).prop_map(|(dir, global, lines, spelling)| IgFile { dir, global, lines, spelling }).boxed();
			let probe = (al.rel_path(4), any::<bool>(), proptest::bool::weighted(0.15)).prop_map(|(comps, is_dir, outside)| Probe { comps, is_dir, outside });
			(
				// a tenth of the cases: 21-40 ignore files in one construction (several per directory; sorting or
				// batching code paths behave differently above small-size thresholds)
				prop_oneof![9 => proptest::collection::vec(file.clone(), 1..6), 1 => proptest::collection::vec(file, 21..41)],
				proptest::collection::vec(probe, 6..24),
				proptest::collection::vec((any::<u16>(), any::<u16>()), 0..4),
				any::<u16>(),
				any::<u16>(),
			)
		})
		.prop_map(|(files, probes, swaps, split, remove)| {
			// a sixth of the cases: the origin lies directly below the filesystem root
			let shallow = (usize::from(split) + usize::from(remove)) % 6 == 0;
			C03Case { files, probes, swaps, split, remove, shallow }
		})
		.boxed()
}

pub fn check(e: &Engine) {
	e.assume("where git's top-down evaluation and the nearest-first evaluation of the statement differ (a negation beneath an ignored directory) the probe is labelled and not asserted; a directory versus an ignore file stored in that same directory is left unspecified");
	e.assume("probes outside the origin are only subject to the metamorphic relations (scoping, permutation, rebuild, construction route)");
	e.explore(
		"scoping",
		LegOpts::det(
			e.tier.pick(4_000, 80_000),
			"in a sixth of the cases the origin is /tmp itself (a directory directly below the filesystem root; the tree is then virtual and the ignore files are stored elsewhere); 1-5 ignore files, in a tenth of the cases 21-40 (whose applies_in directory is spelled plainly, with a '.' component, with a 'name/..' detour or with a trailing separator; origin, nested dirs drawn from a 3-name alphabet that half of the time contains the pair test/tests, global) of 1-4 lines from the grammar with 30% negations; 6-23 probes (files and dirs, 15% outside the origin: half of those in a sibling of the origin whose name has the origin's name as a string prefix, half far away); independent nearest-first evaluator (+ git top-down evaluator to delimit the agreed region) and four metamorphic relations; non-trivial = a probe in a prefix-sibling directory of an ignore file's directory, >=2 files on a probe's chain, or a matching negation",
		),
		&strategy,
		&run,
	);
	e.require_label("scoping", "prefix-sibling-with-ignore-file", 0.15);
	e.require_label("scoping", "negation-matches", 0.2);
}
