//! C06 — graceful stop: signal first, no kill before the grace period, kill at expiry.
//!
//! Focused scenarios with a timed-history oracle that does not use the reference model: the job is
//! brought to a known state, settles, and a graceful control is sent at a known virtual instant t;
//! followers of every priority are queued behind it at generated offsets. All expectations are
//! computed from the case itself (signal number, grace, child reaction delay) and checked against
//! the simulated child's time-stamped call log.

use proptest::prelude::*;
use serde::{Deserialize, Serialize};

use crate::{
	engine::{Engine, LegOpts, Outcome},
	jobdrive::{run_case, sig, JobCase, Op, Step},
	jobgen,
	sim::{ChildSpec, Ev, React, SimSpec},
};

#[derive(Clone, Debug, Serialize, Deserialize, PartialEq, Eq)]
pub enum Follower {
	Run,
	ToWait,
	DeleteNow,
	Signal(u8),
	Start,
}

#[derive(Clone, Debug, Serialize, Deserialize)]
pub struct C06Case {
	/// 0 never started, 1 running, 2 finished, 3 already inside a grace period (child ignores)
	pub prior: u8,
	/// 0 stop_with_signal, 1 restart_with_signal, 2 try_restart_with_signal
	pub kind: u8,
	pub sig: u8,
	pub grace: u32,
	/// reaction of the running child to a catchable signal (None = ignores)
	pub react: Option<u32>,
	/// the running child exits by itself this many ms after the graceful control (None = never)
	pub self_exit_after_t: Option<u32>,
	/// (offset after t in ms, follower), sorted by offset when interpreted
	pub followers: Vec<(u32, Follower)>,
	pub sched: u8,
}

const SETTLE: u32 = 20_000;
const G1: u32 = 400; // grace of the prior graceful stop for prior == 3

struct Built {
	case: JobCase,
	/// index of the graceful step
	g: usize,
	/// instant the graceful control is sent
	t: u64,
	/// follower step indices with their send instants
	followers: Vec<(usize, u64, Follower)>,
}

fn build(c: &C06Case) -> Built {
	let mut steps = Vec::new();
	let mut t: u64 = 0;
	let push = |steps: &mut Vec<Step>, gap: u32, op: Op, t: &mut u64| {
		*t += u64::from(gap);
		steps.push(Step { gap, op, waiters: 2 });
		steps.len() - 1
	};
	let start_at: u64 = 1;
	match c.prior {
		0 => {}
		1 | 3 => {
			push(&mut steps, 1, Op::Start, &mut t);
		}
		_ => {
			push(&mut steps, 1, Op::Start, &mut t);
			push(&mut steps, SETTLE, Op::Stop, &mut t);
		}
	}
	if c.prior == 3 {
		// a graceful stop that is still pending when ours arrives (child ignores its signal)
		push(&mut steps, SETTLE, Op::StopSig { sig: 5, grace: G1 }, &mut t);
		// ours arrives 100 ms into that grace period
		let op = gop(c);
		let g = push(&mut steps, 100, op, &mut t);
		let tt = t;
		let followers = add_followers(c, &mut steps, &mut t);
		push(&mut steps, SETTLE, Op::Run, &mut t);
		return Built {
			case: mk(c, steps, start_at, tt),
			g,
			t: tt,
			followers,
		};
	}
	let op = gop(c);
	let g = push(&mut steps, SETTLE, op, &mut t);
	let tt = t;
	let followers = add_followers(c, &mut steps, &mut t);
	push(&mut steps, SETTLE, Op::Run, &mut t);
	Built {
		case: mk(c, steps, start_at, tt),
		g,
		t: tt,
		followers,
	}
}

fn gop(c: &C06Case) -> Op {
	match c.kind {
		0 => Op::StopSig { sig: c.sig, grace: c.grace },
		1 => Op::RestartSig { sig: c.sig, grace: c.grace },
		_ => Op::TryRestartSig { sig: c.sig, grace: c.grace },
	}
}

fn add_followers(c: &C06Case, steps: &mut Vec<Step>, t: &mut u64) -> Vec<(usize, u64, Follower)> {
	let mut f = c.followers.clone();
	f.sort_by_key(|x| x.0);
	let mut out = Vec::new();
	let mut last = 0u32;
	for (off, fo) in f {
		let gap = off - last;
		last = off;
		*t += u64::from(gap);
		let op = match &fo {
			Follower::Run => Op::Run,
			Follower::ToWait => Op::ToWait,
			Follower::DeleteNow => Op::DeleteNow,
			// a queued signal() is delivered to whatever runs once the queue is released: keep it non-lethal
			Follower::Signal(s) => Op::Signal(if sig(*s).1 == 9 { 4 } else { *s }),
			Follower::Start => Op::Start,
		};
		steps.push(Step { gap, op, waiters: 1 });
		out.push((steps.len() - 1, *t, fo));
	}
	out
}

fn mk(c: &C06Case, steps: Vec<Step>, start_at: u64, t: u64) -> JobCase {
	let first = if c.prior == 3 {
		ChildSpec { self_exit: None, code: 0, react: React::Ignore }
	} else {
		ChildSpec {
			self_exit: c.self_exit_after_t.map(|d| (t - start_at) as u32 + d),
			code: 3,
			// for a signal number the OS layer cannot represent, whether anything is delivered is
			// unspecified: use a child whose behaviour does not depend on it
			react: if sig(c.sig).1 < 0 { React::Ignore } else { c.react.map_or(React::Ignore, React::ExitAfter) },
		}
	};
	JobCase {
		sim: SimSpec {
			children: vec![first, ChildSpec::forever()],
			..Default::default()
		},
		steps,
		track: false,
		sched: c.sched,
		err_handler: true,
	}
}

pub fn run(c: &C06Case) -> Outcome {
	let mut o = Outcome::pass();
	let b = build(c);
	let trace = run_case(&b.case);
	let t = b.t;
	let g = u64::from(c.grace);
	let n = sig(c.sig).1;
	let dump = || format!("\ncase: {c:?}\nt={t} grace={g} sig={n}\nsteps: {:?}\nmarkers: {:?}\nlog: {}", trace.steps, trace.markers, jobgen::fmt_log(&trace));
	let kind_name = ["stop", "restart", "try-restart"][c.kind.min(2) as usize];
	o.label(format!("kind:{kind_name}"));
	o.label(format!("prior:{}", ["pending", "running", "finished", "in-grace"][c.prior.min(3) as usize]));

	// first delete_now follower (ends everything)
	let del = b.followers.iter().filter(|f| f.2 == Follower::DeleteNow).map(|f| f.1).min();
	let after_t: Vec<_> = trace.log.iter().filter(|r| r.ms() >= t).collect();
	let spawns_after: Vec<u64> = after_t.iter().filter(|r| matches!(r.ev, Ev::Spawned { .. })).map(|r| r.ms()).collect();
	let start_followers: Vec<u64> = b.followers.iter().filter(|f| f.2 == Follower::Start).map(|f| f.1).collect();

	if c.prior != 1 {
		// --- graceful control issued while no process can be signalled by it
		// (never started / finished: nothing is running; in-grace: it is held back until the
		// pending graceful stop has finished, and then nothing is running)
		let eff = if c.prior == 3 { t - 100 + u64::from(G1) } else { t };
		let too_early = del.map_or(false, |d| d <= eff);
		if c.prior == 3 {
			// our signal must never be delivered to the old process
			if after_t.iter().any(|r| matches!(r.ev, Ev::Signal { child: 0, sig: s, .. } if s == n && n != 10)) {
				o.fail("queued-graceful:signal-sent-while-held-back", format!("signal {n} reached the process although the control was queued behind a pending graceful stop{}", dump()));
				return o;
			}
			o.nontrivial = true;
		}
		if too_early {
			o.label("deleted-before-effect");
			return o;
		}
		if b.followers.iter().any(|f| !matches!(f.2, Follower::Run | Follower::ToWait)) {
			// followers that themselves spawn, signal or delete: left to the reference model (C09)
			o.label("idle-with-active-followers");
			return o;
		}
		let want_spawn = c.kind == 1;
		let first_spawn_ok = match (want_spawn, spawns_after.first()) {
			(false, None) => true,
			(true, Some(&s)) => {
				if c.kind == 1 {
					s == eff
				} else {
					s >= eff
				}
			}
			_ => false,
		};
		if !first_spawn_ok || spawns_after.len() > 1 {
			o.fail(
				format!("idle:{kind_name}:spawns"),
				format!("graceful {kind_name} on a job that is not running (effective at {eff} ms): spawns after t at {spawns_after:?}, expected {}{}", if want_spawn { "exactly one" } else { "none" }, dump()),
			);
			return o;
		}
		if del.is_none() {
			let w = &trace.steps[b.g].waiters;
			if w.iter().any(|x| *x != Some(eff)) {
				o.fail(format!("idle:{kind_name}:ticket"), format!("ticket resolved at {w:?}, expected {eff}{}", dump()));
			}
		}
		return o;
	}

	// --- the main case: a process is running and the job task is idle at t
	let natural: Option<u64> = {
		let mut x: Option<u64> = c.self_exit_after_t.map(|d| t + u64::from(d));
		let reacts = if n == 9 { Some(0) } else if n == 19 || n < 0 { None } else { c.react };
		if let Some(d) = reacts {
			let r = t + u64::from(d);
			x = Some(x.map_or(r, |v| v.min(r)));
		}
		x
	};
	let deadline = t + g;
	let tie = natural == Some(deadline) || del == Some(deadline) || (del.is_some() && del == natural);
	let near = natural.map_or(false, |x| x.abs_diff(deadline) <= 1);
	if near {
		o.label("reaction-within-1ms-of-deadline");
	}
	if g == 0 {
		o.label("grace-zero");
	}
	if !b.followers.is_empty() {
		o.label("followers");
	}
	if tie {
		o.label("tie");
	}
	o.nontrivial = near || g == 0 || !b.followers.is_empty();

	if c.self_exit_after_t == Some(0) {
		// the process exits in the very instant the control arrives: either may be seen first
		o.label("exit-at-arrival");
		if let Some(msg) = super::c04::overlap(&trace) {
			o.fail("overlap", msg);
		}
		return o;
	}
	if del == Some(t) {
		// delete_now sent in the same instant as the graceful control: a job task parked in its
		// select! may legitimately pick the urgent control first
		o.label("delete-now-same-instant");
		if let Some(&s) = spawns_after.iter().find(|s| **s > t) {
			o.fail("spawn-after-delete-now", format!("spawned at {s} after delete_now at {t}{}", dump()));
		}
		return o;
	}
	// (a) the requested signal, immediately
	let first0 = after_t.iter().find(|r| match &r.ev {
		Ev::Signal { child: 0, .. } | Ev::StartKill { child: 0, .. } | Ev::WaitDone { child: 0, .. } => true,
		_ => false,
	});
	if n < 0 {
		o.label("unrepresentable-signal");
	}
	match first0 {
		_ if n < 0 => {}
		Some(r) if r.ms() == t && matches!(r.ev, Ev::Signal { child: 0, sig: s, ok: true, .. } if s == n) => {}
		other => {
			o.fail(
				"signal-not-first",
				format!("expected signal {n} to the running process at t={t} as the first action, found {other:?}{}", dump()),
			);
			return o;
		}
	}
	// end of the old process as it must be
	let mut end = deadline;
	if let Some(x) = natural {
		end = end.min(x);
	}
	let killed_by_delete = del.map_or(false, |d| d < end);
	if let Some(d) = del {
		end = end.min(d);
	}
	// (b) no force-kill before the grace period is over
	let kills0: Vec<u64> = trace.log.iter().filter(|r| matches!(r.ev, Ev::StartKill { child: 0, .. })).map(|r| r.ms()).collect();
	if let Some(&k) = kills0.first() {
		let allowed_from = del.map_or(deadline, |d| d.min(deadline));
		if k < allowed_from {
			o.fail("kill-before-grace-elapsed", format!("process force-killed at {k} ms, grace period ends at {deadline} ms (delete_now at {del:?}){}", dump()));
			return o;
		}
	}
	let reaped0 = trace.log.iter().find(|r| matches!(r.ev, Ev::WaitDone { child: 0, .. } | Ev::TryWait { child: 0, raw: Some(_) })).map(|r| r.ms());
	if !tie {
		// (c) killed and reaped exactly at expiry if still running; otherwise never killed
		let still_running_at_deadline = natural.map_or(true, |x| x > deadline) && !killed_by_delete;
		if still_running_at_deadline {
			if kills0.first() != Some(&deadline) || reaped0 != Some(deadline) {
				o.fail(
					"no-kill-at-expiry",
					format!("process still running when the grace period elapsed at {deadline} ms: kills at {kills0:?}, reaped at {reaped0:?}{}", dump()),
				);
				return o;
			}
		} else if !killed_by_delete {
			if !kills0.is_empty() && del.is_none() {
				o.fail("kill-after-exit", format!("process exited by itself at {:?} but was force-killed at {kills0:?}{}", natural, dump()));
				return o;
			}
			if reaped0 != Some(end) {
				o.fail("not-reaped-at-exit", format!("process exited at {end} ms, reaped at {reaped0:?}{}", dump()));
				return o;
			}
		}
	}
	let end_lo = if tie { reaped0.unwrap_or(end).min(end) } else { end };
	// (d) later normal-priority controls are held back until the process has ended
	for (idx, at, f) in &b.followers {
		if matches!(f, Follower::Run) {
			let m = trace.markers.iter().find(|m| m.step == *idx && !m.behind);
			match m {
				Some(m) if m.t_ms < end_lo.max(*at) => {
					o.fail("normal-control-not-held-back", format!("run() sent at {at} ms executed at {} ms, before the process ended at {end_lo} ms{}", m.t_ms, dump()));
					return o;
				}
				None if del.is_none() => {
					o.fail("follower-never-ran", format!("run() sent at {at} ms never executed{}", dump()));
					return o;
				}
				_ => {}
			}
		}
		if let Follower::Signal(s) = f {
			// a queued signal() must not reach the old process during the grace period
			let sn = if sig(*s).1 == 9 { 10 } else { sig(*s).1 };
			if n >= 0 && sn != n && trace.log.iter().any(|r| matches!(r.ev, Ev::Signal { child: 0, sig: x, .. } if x == sn)) && *at < end_lo {
				o.fail("normal-control-not-held-back", format!("signal({sn}) sent at {at} ms was delivered to the old process (ended {end_lo}){}", dump()));
				return o;
			}
		}
	}
	// (e) replacement: never before the old process ended, exactly once
	if let Some(&s) = spawns_after.first() {
		if s < end_lo {
			o.fail("respawn-before-old-process-ended", format!("replacement spawned at {s} ms, old process ended at {end_lo} ms{}", dump()));
			return o;
		}
	}
	if del.is_none() && !tie {
		let restart = c.kind != 0;
		let expected: Vec<u64> = if restart {
			vec![end]
		} else if let Some(&s) = start_followers.iter().min() {
			vec![s.max(end)]
		} else {
			vec![]
		};
		if spawns_after != expected {
			o.fail(
				format!("{kind_name}:replacement-count-or-time"),
				format!("spawns after the graceful {kind_name}: {spawns_after:?}, expected {expected:?} (old process ends at {end}){}", dump()),
			);
			return o;
		}
		// ticket of the graceful control: when the stop (resp. the restart) completed
		let w = &trace.steps[b.g].waiters;
		if w.iter().any(|x| *x != Some(end)) {
			o.fail(format!("{kind_name}:ticket-time"), format!("ticket resolved at {w:?}, expected {end}{}", dump()));
			return o;
		}
	} else if killed_by_delete || del.is_some() {
		// after delete_now nothing may be spawned
		let d = del.unwrap();
		if spawns_after.iter().any(|s| *s > d) {
			o.fail("spawn-after-delete-now", format!("spawned at {spawns_after:?} after delete_now at {d}{}", dump()));
		}
	}
	o
}

fn follower() -> impl Strategy<Value = Follower> {
	prop_oneof![
		4 => Just(Follower::Run),
		3 => Just(Follower::ToWait),
		1 => Just(Follower::DeleteNow),
		2 => (0u8..10).prop_map(Follower::Signal),
		2 => Just(Follower::Start),
	]
}

fn strategy() -> BoxedStrategy<C06Case> {
	let grace = prop_oneof![2 => Just(0u32), 1 => Just(1), 3 => Just(50), 3 => Just(100), 1 => Just(1000), 1 => Just(10_000)];
	grace
		.prop_flat_map(|g| {
			let around = prop_oneof![
				Just(g.saturating_sub(1)),
				Just(g),
				Just(g + 1),
				Just(0u32),
				Just(g / 2),
				Just(g * 2 + 3),
				0u32..(g * 2 + 5),
			];
			(
				prop_oneof![1 => Just(0u8), 8 => Just(1), 1 => Just(2), 2 => Just(3)],
				0u8..3,
				prop_oneof![8 => 0u8..10, 1 => 10u8..13],
				Just(g),
				proptest::option::weighted(0.7, around.clone()),
				proptest::option::weighted(0.2, around.clone()),
				proptest::collection::vec((around, follower()), 0..6),
				any::<u8>(),
			)
		})
		.prop_map(|(prior, kind, sig, grace, react, self_exit_after_t, followers, sched)| C06Case {
			prior,
			kind,
			sig,
			grace,
			react,
			self_exit_after_t,
			followers,
			sched,
		})
		.boxed()
}

pub fn check(e: &Engine) {
	e.assume("simulated children via the public spawn hook, paused tokio clock (1 ms ticks): 'immediately' and 'at expiry' are exact virtual instants");
	e.assume("signals nix cannot represent (0, real-time) are outside the generated domain");
	e.explore(
		"graceful",
		LegOpts::det(
			e.tier.pick(12_000, 300_000),
			"graceful stop / restart / try-restart at a known instant in every job state; grace in {0,1,50,100,1000,10000} ms; child reaction / self-exit drawn around the deadline (g-1, g, g+1, ...); 0-5 followers (run, to_wait, delete_now, signal, start) at offsets around the deadline; non-trivial = reaction within 1 ms of the deadline, grace 0, or >=1 follower",
		),
		&strategy,
		&run,
	);
	e.explore(
		"real-process",
		LegOpts::realtime(
			e.tier.pick(96, 2_000),
			16,
			"one graceful stop / restart / try-restart sent to a running real process (vhelper: plain, grouped or session; exits at once, after a delay, or never on the signal; may exit by itself during the wait) supervised by the production job task through process-wrap, on real time: evidence of a violation is the process seen dead before the grace deadline (or missing its own end record), seen alive 1.5 s after it, a wrong / missing first signal, a follower that ran or a ticket that resolved while the process was still seen alive, a replacement count other than exactly one, or a replacement that found the job's lock held. Non-trivial: grace > 0",
		),
		&super::realjob::grace_strategy,
		&super::realjob::run_grace,
	);
	e.explore(
		"graceful-quit",
		LegOpts::realtime(
			e.tier.pick(48, 800),
			16,
			"the library's graceful quit (ActionHandler::quit_gracefully(signal, grace 600/1000 ms)) with 1-3 jobs running real processes (plain / grouped / session; exit on the signal, ignore it, or exit 20-900 ms later), requested in the action that created and started the jobs or in a later one: every process logs the requested signal first and within 0.5 s of the request (all jobs are signalled together), is not seen dead before the grace period is over unless it ends by itself (its own end record must exist), and is gone 1.5 s after min(grace, own end); main finishes",
		),
		&super::realjob::quit_strategy,
		&super::realjob::run_quit,
	);
	e.require_label("graceful-quit", "quit-in-creating-action", 0.25);
	e.explore(
		"quit-while-busy",
		LegOpts::realtime(
			e.tier.pick(32, 400),
			16,
			"a graceful quit (grace 0/100/500 ms) requested 40-300 ms after 1-2 jobs running real processes that ignore signals (or exit 700 ms after the first one) were given something that must finish first: a graceful stop or graceful restart with a longer grace period (2.2/2.7 s) and another signal, or a run_async hook sleeping that long. Earlier grace period: the process logs the earlier control's signal first and is not seen dead before that grace period is over; hook: the process logs the quit's signal first and is not seen dead before the quit's grace period after it; gone 1.5 s after the deadline; main finishes; nothing survives",
		),
		&super::realjob::quit_busy_strategy,
		&super::realjob::run_quit_busy,
	);
	e.require_label("real-process", "outlives-grace", 0.15);
	e.require_label("real-process", "ends-within-grace", 0.15);
	e.require_label("graceful", "reaction-within-1ms-of-deadline", 0.1);
	e.require_label("graceful", "followers", 0.5);
}
