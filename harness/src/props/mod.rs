use crate::engine::Engine;

pub mod c19;

pub fn run(id: &str, e: &Engine) -> bool {
	match id {
		"C19" => c19::check(e),
		_ => return false,
	}
	true
}

pub const ALL: &[&str] = &["C19"];
