use crate::engine::Engine;

pub mod c01;
pub mod c02;
pub mod c03;
pub mod c04;
pub mod c05;
pub mod c06;
pub mod c07;
pub mod c08;
pub mod c09;
pub mod c10;
pub mod c11;
pub mod c12;
pub mod c13;
pub mod c14;
pub mod c15;
pub mod c16;
pub mod c16_cli;
pub mod c17;
pub mod c17_cli;
pub mod c18;
pub mod c19;
pub mod c20;
pub mod realfs;
pub mod realjob;
pub mod realsrc;

pub fn run(id: &str, e: &Engine) -> bool {
	match id {
		"C01" => c01::check(e),
		"C02" => c02::check(e),
		"C03" => c03::check(e),
		"C04" => c04::check(e),
		"C05" => c05::check(e),
		"C06" => c06::check(e),
		"C07" => c07::check(e),
		"C08" => c08::check(e),
		"C09" => c09::check(e),
		"C10" => c10::check(e),
		"C11" => c11::check(e),
		"C12" => c12::check(e),
		"C13" => c13::check(e),
		"C14" => c14::check(e),
		"C15" => c15::check(e),
		"C16" => c16::check(e),
		"C17" => c17::check(e),
		"C18" => c18::check(e),
		"C19" => c19::check(e),
		"C20" => c20::check(e),
		_ => return false,
	}
	true
}

pub const ALL: &[&str] = &["C01", "C02", "C03", "C04", "C05", "C06", "C07", "C08", "C09", "C10", "C11", "C12", "C13", "C14", "C15", "C16", "C17", "C18", "C19", "C20"];
