//! C09 — job lifecycle follows the documented state machine.
//!
//! Lock-step comparison of the production job task (simulated children, virtual time) with the
//! executable reference model in `jobmodel`, plus the named laws asserted directly on the trace
//! so that a model bug cannot hide them.

use proptest::prelude::*;

use crate::{
	engine::{Engine, LegOpts, Outcome},
	jobdrive::{run_case, JobCase, Op, Step, Trace},
	jobgen,
	jobmodel::{predict, MEv, ModelOut},
	sim::{ChildSpec, Ev, React, SimSpec, StateKind},
};

fn impl_log(trace: &Trace) -> Vec<(u64, MEv)> {
	let mut v = Vec::new();
	for r in &trace.log {
		let ev = match &r.ev {
			Ev::HookCall { marker, current, previous } => MEv::Hook {
				marker: *marker,
				current: *current,
				previous: *previous,
			},
			Ev::SpawnAttempt { idx, marker } => MEv::SpawnAttempt { idx: *idx, marker: *marker },
			Ev::SpawnFailed { idx } => MEv::SpawnFailed { idx: *idx },
			Ev::Spawned { child } => MEv::Spawned { child: *child },
			Ev::Signal { child, sig, ok, .. } => MEv::Signal {
				child: *child,
				sig: *sig,
				ok: *ok,
			},
			Ev::StartKill { child, ok, .. } => MEv::StartKill { child: *child, ok: *ok },
			Ev::WaitDone { child, raw } => MEv::Reaped { child: *child, raw: *raw },
			Ev::TryWait { child, raw: Some(raw) } => MEv::Reaped { child: *child, raw: *raw },
			Ev::ErrorHandler { .. } => MEv::ErrorHandler,
			Ev::Drop { child, reaped: false, .. } => MEv::DroppedRunning { child: *child },
			_ => continue,
		};
		v.push((r.ms(), ev));
	}
	v
}

fn fmt_mlog(l: &[(u64, MEv)]) -> String {
	l.iter().map(|(t, e)| format!("\n  {t:>7}ms {e:?}")).collect()
}

/// Compare implementation and model. Returns (signature, message) of the first difference.
pub fn compare(case: &JobCase, trace: &Trace, model: &ModelOut) -> Option<(String, String)> {
	let il = impl_log(trace);
	let detail = || {
		format!(
			"\nimplementation log:{}\nmodel log:{}\nimpl steps: {:?}\nmodel tickets: {:?}\nimpl markers: {:?}\nmodel markers: {:?}\nimpl task_end: {:?} model task_end: {:?}",
			fmt_mlog(&il),
			fmt_mlog(&model.log),
			trace.steps,
			model.tickets,
			trace.markers,
			model.markers,
			trace.task_end,
			model.task_end
		)
	};
	if let Some((t, true)) = trace.task_end {
		return Some(("task-panic".into(), format!("job task panicked at {t} ms{}", detail())));
	}
	// child-call log
	for k in 0..il.len().max(model.log.len()) {
		let a = il.get(k);
		let b = model.log.get(k);
		if a != b {
			let spawnish = |x: Option<&(u64, MEv)>| matches!(x, Some((_, MEv::Hook { .. } | MEv::SpawnAttempt { .. } | MEv::Spawned { .. })));
			let t = |x: Option<&(u64, MEv)>| x.map_or(u64::MAX, |e| e.0);
			let what = if spawnish(a) && (!spawnish(b) || t(a) < t(b)) {
				"unexpected-spawn"
			} else if spawnish(b) && (!spawnish(a) || t(b) < t(a)) {
				"missing-spawn"
			} else {
				match (a, b) {
					(Some((_, MEv::Hook { marker: m1, .. })), Some((_, MEv::Hook { marker: m2, .. }))) if m1 != m2 => "hook-marker",
					(Some((_, MEv::Hook { .. })), Some((_, MEv::Hook { .. }))) => "hook-context-or-time",
					(Some((_, MEv::SpawnAttempt { .. })), Some((_, MEv::SpawnAttempt { .. }))) => "hook-effect-on-spawn",
					(Some((_, MEv::SpawnAttempt { .. })), _) | (_, Some((_, MEv::SpawnAttempt { .. }))) => "hook-call-count",
					(Some((_, MEv::Signal { .. })), Some((_, MEv::Signal { .. }))) => "signal-differs",
					(Some((_, MEv::Signal { .. })), _) => "unexpected-signal",
					(_, Some((_, MEv::Signal { .. }))) => "missing-signal",
					(Some((_, MEv::StartKill { .. })), Some((_, MEv::StartKill { .. }))) => "kill-differs",
					(Some((_, MEv::StartKill { .. })), _) => "unexpected-kill",
					(_, Some((_, MEv::StartKill { .. }))) => "missing-kill",
					(Some((_, MEv::Reaped { .. })), Some((_, MEv::Reaped { .. }))) => "reap-differs",
					(Some((_, MEv::ErrorHandler)), _) => "unexpected-error-handler-call",
					(_, Some((_, MEv::ErrorHandler))) => "missing-error-handler-call",
					_ => "other",
				}
			};
			return Some((
				format!("log:{what}"),
				format!("child-call log differs at entry {k}: implementation {a:?}, model {b:?}{}", detail()),
			));
		}
	}
	// markers (run / run_async closures): exactly the predicted ones, with the predicted context
	let mut im: Vec<_> = trace.markers.iter().filter(|m| !m.behind).collect();
	im.sort_by_key(|m| m.seq);
	for k in 0..im.len().max(model.markers.len()) {
		let a = im.get(k);
		let b = model.markers.get(k);
		let same = match (a, b) {
			(Some(a), Some(b)) => {
				a.step == b.step && a.t_ms == b.t_ms && a.current == b.current && a.previous == b.previous && a.status == b.status && a.prev_status == b.prev_status
			}
			_ => false,
		};
		if !same {
			let what = match (a, b) {
				(Some(a), Some(b)) if a.step != b.step => "order",
				(Some(a), Some(b)) if a.t_ms != b.t_ms => "time",
				(Some(a), Some(b)) if a.current != b.current || a.status != b.status => "current-state",
				(Some(_), Some(_)) => "previous-state",
				(None, _) => "closure-not-run",
				_ => "closure-run-unexpectedly",
			};
			return Some((
				format!("probe:{what}"),
				format!("state probe {k} differs: implementation {a:?}, model {b:?}{}", detail()),
			));
		}
	}
	// task end
	if trace.task_end.map(|t| t.0) != model.task_end {
		return Some((
			"task-end".into(),
			format!("job task end differs: implementation {:?}, model {:?}{}", trace.task_end, model.task_end, detail()),
		));
	}
	// tickets
	for (i, so) in trace.steps.iter().enumerate() {
		if so.sent != model.sent[i] {
			return Some(("harness:sent-mismatch".into(), format!("step {i} sent flag differs{}", detail())));
		}
		if !so.sent || case.steps[i].op == Op::DropHandle {
			continue;
		}
		for (w, got) in so.waiters.iter().enumerate() {
			if *got != model.tickets[i] {
				let what = match (got, model.tickets[i]) {
					(None, Some(_)) => "never-resolves",
					(Some(_), None) => "resolves-unexpectedly",
					(Some(a), Some(b)) if *a < b => "early",
					_ => "late",
				};
				return Some((
					format!("ticket:{what}:{}", case.steps[i].op.name()),
					format!(
						"ticket of step {i} ({:?}), waiter {w}: implementation resolved at {got:?}, model says {:?}{}",
						case.steps[i].op,
						model.tickets[i],
						detail()
					),
				));
			}
		}
	}
	None
}

pub fn run(case: &JobCase) -> Outcome {
	let mut o = Outcome::pass();
	let trace = run_case(case);
	let model = predict(case);
	let distinct_states = {
		let mut v = model.states_visited.clone();
		v.sort_by_key(|k| *k as u8);
		v.dedup();
		v.len()
	};
	let hook_change = case.steps.iter().any(|s| matches!(s.op, Op::SetHook(_) | Op::ClearHook));
	let spawn_failed = model.log.iter().any(|(_, e)| matches!(e, MEv::SpawnFailed { .. }));
	let graceful = case.steps.iter().any(|s| s.op.is_graceful());
	if hook_change {
		o.label("hook-change");
	}
	if spawn_failed {
		o.label("spawn-failure");
	}
	if graceful {
		o.label("graceful");
	}
	if distinct_states >= 3 {
		o.label("3-states");
	}
	o.nontrivial = distinct_states >= 3 && (hook_change || spawn_failed || graceful);
	if let Some(why) = &model.ambiguous {
		// outcome legitimately depends on which simultaneous event the task sees first:
		// only the schedule-independent invariants apply (C04 / C07 check those)
		o.label("ambiguous-tie");
		let _ = why;
		if let Some((t, true)) = trace.task_end {
			o.fail("task-panic", format!("job task panicked at {t} ms"));
		}
		if let Some(msg) = super::c04::overlap(&trace) {
			o.fail("overlap", msg);
		}
		o.nontrivial = false;
		return o;
	}
	o.label("compared");
	if let Some((sig, msg)) = compare(case, &trace, &model) {
		o.fail(sig, msg);
	}
	o
}

// ---------------------------------------------------------------- named laws

#[derive(Clone, Debug, serde::Serialize, serde::Deserialize)]
pub struct LawCase {
	/// 0 start-idempotent, 1 stop-idle-noop, 2 restart-fresh, 3 try-restart-idle, 4 wait-idle, 5 hook-once
	pub law: u8,
	/// prefix bringing the job into some state: 0 pending, 1 running, 2 finished (self-exit), 3 finished (stopped)
	pub state: u8,
	pub burst: bool,
	pub graceful: bool,
	pub sched: u8,
}

fn law_case(c: &LawCase) -> (JobCase, usize) {
	let forever = ChildSpec { self_exit: None, code: 0, react: React::ExitAfter(7) };
	let children = if c.state == 2 {
		vec![ChildSpec { self_exit: Some(5), code: 2, react: React::Ignore }, forever]
	} else {
		vec![forever]
	};
	let gap = |first: bool| if c.burst && !first { 0 } else { 20_000 };
	let mut steps = Vec::new();
	match c.state {
		0 => {}
		1 | 2 => steps.push(Step { gap: 1, op: Op::Start, waiters: 1 }),
		_ => {
			steps.push(Step { gap: 1, op: Op::Start, waiters: 1 });
			steps.push(Step { gap: 20_000, op: Op::Stop, waiters: 1 });
		}
	}
	// a settle + probe before the law's ops
	steps.push(Step { gap: 20_000, op: Op::Run, waiters: 1 });
	let base = steps.len();
	let g = c.graceful;
	match c.law {
		0 => {
			steps.push(Step { gap: gap(true), op: Op::Start, waiters: 1 });
			steps.push(Step { gap: gap(false), op: Op::Start, waiters: 1 });
		}
		1 => steps.push(Step { gap: gap(true), op: if g { Op::StopSig { sig: 0, grace: 50 } } else { Op::Stop }, waiters: 1 }),
		2 => steps.push(Step { gap: gap(true), op: if g { Op::RestartSig { sig: 0, grace: 50 } } else { Op::Restart }, waiters: 1 }),
		3 => steps.push(Step { gap: gap(true), op: if g { Op::TryRestartSig { sig: 0, grace: 50 } } else { Op::TryRestart }, waiters: 1 }),
		4 => steps.push(Step { gap: gap(true), op: Op::ToWait, waiters: 2 }),
		_ => {
			steps.push(Step { gap: gap(true), op: Op::SetHook(7), waiters: 1 });
			steps.push(Step { gap: gap(false), op: Op::Restart, waiters: 1 });
			steps.push(Step { gap: gap(false), op: Op::ClearHook, waiters: 1 });
			steps.push(Step { gap: gap(false), op: Op::Restart, waiters: 1 });
		}
	}
	steps.push(Step { gap: 20_000, op: Op::Run, waiters: 1 });
	(
		JobCase {
			sim: SimSpec { children, ..Default::default() },
			steps,
			track: false,
			sched: c.sched,
			err_handler: true,
		},
		base,
	)
}

fn run_law(c: &LawCase) -> Outcome {
	let mut o = Outcome::pass();
	o.nontrivial = true;
	let (case, base) = law_case(c);
	let trace = run_case(&case);
	let probes: Vec<_> = trace.markers.iter().filter(|m| !m.behind).collect();
	if probes.len() != 2 {
		o.fail("law:probe-missing", format!("expected 2 probes, got {probes:?}"));
		return o;
	}
	let (before, after) = (probes[0], probes[1]);
	let t_law = trace.steps[base].sent_ms;
	let spawns_before = trace.log.iter().filter(|r| r.ms() < t_law && matches!(r.ev, Ev::Spawned { .. })).count();
	let spawns_after = trace.log.iter().filter(|r| matches!(r.ev, Ev::Spawned { .. })).count();
	let new_records: Vec<_> = trace.log.iter().filter(|r| r.ms() >= t_law && !matches!(r.ev, Ev::WaitStart { .. })).collect();
	let idle = before.current != StateKind::Running;
	o.label(format!("law{}", c.law));
	o.label(if idle { "idle" } else { "running" });
	let dump = || format!("\ncase: {case:?}\nprobes: {probes:?}\nsteps: {:?}\nlog: {}", trace.steps, jobgen::fmt_log(&trace));
	match c.law {
		0 => {
			let expect = usize::from(idle);
			if spawns_after - spawns_before != expect || after.current != StateKind::Running {
				o.fail("law:start-idempotent", format!("start;start from {:?}: {} new spawns (expected {expect}), final {:?}{}", before.current, spawns_after - spawns_before, after.current, dump()));
			}
		}
		1 if idle => {
			if !new_records.is_empty() || after.current != before.current || after.status != before.status {
				o.fail("law:stop-idle-noop", format!("stop while not running changed something: {new_records:?}, {:?} -> {:?}{}", before.current, after.current, dump()));
			}
			let w = &trace.steps[base].waiters;
			if w.iter().any(|x| *x != Some(t_law)) {
				o.fail("law:stop-idle-noop", format!("stop while not running: ticket resolved at {w:?}, sent at {t_law}{}", dump()));
			}
		}
		1 => {
			if after.current != StateKind::Finished || spawns_after != spawns_before {
				o.fail("law:stop-running", format!("stop while running: final {:?}, spawns {spawns_before}->{spawns_after}{}", after.current, dump()));
			}
		}
		2 => {
			if after.current != StateKind::Running || spawns_after != spawns_before + 1 {
				o.fail("law:restart-fresh", format!("restart from {:?}: final {:?}, spawns {spawns_before}->{spawns_after} (expected +1){}", before.current, after.current, dump()));
			}
		}
		3 if idle => {
			if spawns_after != spawns_before || after.current != before.current {
				o.fail("law:try-restart-idle", format!("try-restart started an idle job ({:?} -> {:?}, spawns {spawns_before}->{spawns_after}){}", before.current, after.current, dump()));
			}
		}
		3 => {
			if after.current != StateKind::Running || spawns_after != spawns_before + 1 {
				o.fail("law:try-restart-running", format!("try-restart while running: final {:?}, spawns {spawns_before}->{spawns_after}{}", after.current, dump()));
			}
		}
		4 if idle => {
			let w = &trace.steps[base].waiters;
			if w.iter().any(|x| *x != Some(t_law)) {
				o.fail("law:wait-idle", format!("to_wait while nothing is running ({:?}): resolved at {w:?}, sent at {t_law}{}", before.current, dump()));
			}
		}
		4 => {
			let w = &trace.steps[base].waiters;
			if w.iter().any(|x| x.is_some()) {
				o.fail("law:wait-running", format!("to_wait while running (child never exits) resolved at {w:?}{}", dump()));
			}
		}
		_ => {
			// hook called exactly once per spawn, before it; marker present exactly while installed
			let mut expect_marker: Vec<Option<u32>> = Vec::new();
			let mut hooks = 0;
			for r in &trace.log {
				match &r.ev {
					Ev::HookCall { marker, .. } => {
						hooks += 1;
						expect_marker.push(*marker);
					}
					Ev::SpawnAttempt { idx, marker } => {
						if hooks != idx + 1 {
							o.fail("law:hook-once", format!("spawn attempt {idx} preceded by {hooks} hook calls{}", dump()));
							return o;
						}
						if expect_marker.last() != Some(marker) {
							o.fail("law:hook-effect", format!("spawn attempt {idx} carries marker {marker:?}, hook set {:?}{}", expect_marker.last(), dump()));
							return o;
						}
					}
					_ => {}
				}
			}
			let markers: Vec<Option<u32>> = trace
				.log
				.iter()
				.filter(|r| r.ms() >= t_law)
				.filter_map(|r| if let Ev::SpawnAttempt { marker, .. } = &r.ev { Some(*marker) } else { None })
				.collect();
			if markers != vec![Some(7), None] {
				o.fail("law:hook-effect", format!("markers on the two restarts are {markers:?}, expected [Some(7), None]{}", dump()));
			}
		}
	}
	o
}

pub fn reduced_alphabet() -> Vec<Op> {
	vec![
		Op::Start,
		Op::Stop,
		Op::StopSig { sig: 0, grace: 100 },
		Op::Restart,
		Op::RestartSig { sig: 1, grace: 100 },
		Op::TryRestart,
		Op::TryRestartSig { sig: 2, grace: 100 },
		Op::Signal(4),
		Op::ToWait,
		Op::Delete,
		Op::DeleteNow,
		Op::SetHook(5),
		Op::ClearHook,
		Op::Run,
		Op::RunAsync { delay: 3 },
	]
}

fn exhaustive(max_len: usize) -> Vec<JobCase> {
	let alpha = reduced_alphabet();
	let classes = vec![
		ChildSpec { self_exit: None, code: 0, react: React::Ignore },
		ChildSpec { self_exit: None, code: 0, react: React::ExitAfter(13) },
		ChildSpec { self_exit: Some(57), code: 1, react: React::ExitAfter(213) },
	];
	let mut seqs: Vec<Vec<usize>> = vec![vec![]];
	let mut all = Vec::new();
	for _ in 0..max_len {
		let mut next = Vec::new();
		for s in &seqs {
			for i in 0..alpha.len() {
				let mut t = s.clone();
				t.push(i);
				next.push(t);
			}
		}
		all.extend(next.iter().cloned());
		seqs = next;
	}
	let mut out = Vec::new();
	for s in all {
		for (ci, class) in classes.iter().enumerate() {
			for (pi, gapv) in [0u32, 10, 20_000].into_iter().enumerate() {
				for fail in [None, Some(1u8)] {
					// spawn failure only combined with the settled pattern to bound the product
					if fail.is_some() && pi != 2 {
						continue;
					}
					out.push(JobCase {
						sim: SimSpec {
							children: vec![class.clone()],
							spawn_fail: fail.into_iter().collect(),
							..Default::default()
						},
						steps: s
							.iter()
							.enumerate()
							.map(|(k, &i)| Step {
								gap: if k == 0 { 1 } else { gapv },
								op: alpha[i].clone(),
								waiters: 1,
							})
							.collect(),
						track: false,
						sched: (ci + pi) as u8,
						err_handler: true,
					});
				}
			}
		}
	}
	out
}

/// Random cases biased to distinct event times: gaps are multiples of 10 ms (or the settle gap),
/// child delays and graces are drawn from values that are 3 or 7 mod 10.
fn distinct_time_case() -> impl Strategy<Value = JobCase> {
	let off = prop_oneof![Just(3u32), Just(7), Just(13), Just(47), Just(53), Just(97), Just(103), Just(207)];
	let grace = prop_oneof![Just(50u32), Just(100), Just(0), Just(30)];
	let child = (
		prop_oneof![3 => Just(None), 2 => off.clone().prop_map(Some)],
		prop_oneof![Just(0u8), Just(1), Just(3)],
		prop_oneof![2 => Just(React::Ignore), 5 => off.clone().prop_map(React::ExitAfter)],
	)
		.prop_map(|(self_exit, code, react)| ChildSpec { self_exit, code, react });
	let sig = 0u8..10;
	let op = prop_oneof![
		6 => Just(Op::Start),
		3 => Just(Op::Stop),
		4 => (sig.clone(), grace.clone()).prop_map(|(sig, grace)| Op::StopSig { sig, grace }),
		3 => Just(Op::Restart),
		4 => (sig.clone(), grace.clone()).prop_map(|(sig, grace)| Op::RestartSig { sig, grace }),
		3 => Just(Op::TryRestart),
		4 => (sig.clone(), grace.clone()).prop_map(|(sig, grace)| Op::TryRestartSig { sig, grace }),
		2 => sig.clone().prop_map(Op::Signal),
		3 => Just(Op::ToWait),
		3 => Just(Op::Run),
		1 => prop_oneof![Just(0u32), Just(4), Just(24)].prop_map(|delay| Op::RunAsync { delay }),
		1 => Just(Op::Delete),
		1 => Just(Op::DeleteNow),
		2 => (1u32..4).prop_map(Op::SetHook),
		1 => Just(Op::ClearHook),
		1 => Just(Op::SetErrHandler),
		1 => Just(Op::UnsetErrHandler),
		1 => Just(Op::DropHandle),
		1 => Just(Op::RawContinue),
		1 => Just(Op::RawNextEnding),
	];
	let gap = prop_oneof![4 => Just(0u32), 3 => Just(10), 2 => Just(20), 2 => Just(50), 2 => Just(100), 3 => Just(20_000)];
	let step = (gap, op).prop_map(|(gap, op)| Step { gap, op, waiters: 1 });
	(
		proptest::collection::vec(child, 1..4),
		prop_oneof![3 => Just(vec![]), 1 => proptest::collection::vec(0u8..4, 1..3)],
		prop_oneof![6 => Just(vec![]), 1 => proptest::collection::vec(0u8..3, 1..2)],
		prop_oneof![6 => Just(vec![]), 1 => proptest::collection::vec(0u8..3, 1..2)],
		proptest::collection::vec(step, 1..16),
		any::<u8>(),
		proptest::bool::weighted(0.8),
	)
		.prop_map(|(children, spawn_fail, kill_fail, signal_fail, mut steps, sched, err_handler)| {
			if let Some(f) = steps.first_mut() {
				f.gap = f.gap.max(10);
			}
			JobCase {
				sim: SimSpec { async_api: (children.len() + spawn_fail.len() + signal_fail.len()) % 3 == 1, hook_delay: [0u8, 3, 0, 20][(children.len() + 2 * spawn_fail.len() + kill_fail.len()) % 4], children, spawn_fail, kill_fail, signal_fail, wait_fail: vec![], kill_lag_ms: 0, kill_esrch: false },
				steps,
				track: false,
				sched,
				err_handler,
			}
		})
}

pub fn check(e: &Engine) {
	e.assume("reference model written from the Job/Control docs; where the docs are silent (state after a failed kill, previous-state after a failed spawn) it follows the observed behaviour");
	e.assume("cases whose outcome depends on the order of simultaneous events (model reports a tie) are checked against schedule-independent invariants only");
	let mut laws = Vec::new();
	for law in 0..6u8 {
		for state in 0..4u8 {
			for burst in [false, true] {
				for graceful in [false, true] {
					for sched in [0u8, 1, 2] {
						laws.push(LawCase { law, state, burst, graceful, sched });
					}
				}
			}
		}
	}
	e.enumerate(
		"laws",
		"named laws x 4 prior job states x {burst, settled} x {plain, graceful} x 3 select! seeds, asserted directly on the trace without the model",
		true,
		laws,
		&run_law,
	);
	e.enumerate(
		"exhaustive",
		"all sequences over the 15-control reduced alphabet up to the bound x 3 child classes x {burst, 10 ms, settled} (+ spawn failure at index 1, settled); compared step by step with the reference model; non-trivial = >=3 distinct states and (hook change | spawn failure | graceful)",
		true,
		exhaustive(e.tier.pick(2, 3)),
		&run,
	);
	e.explore(
		"random-distinct-times",
		LegOpts::det(e.tier.pick(12_000, 250_000), "random sequences (<=16 steps) with event times biased to be distinct, spawn/kill/signal faults, hook/handler changes, handle drop; compared with the reference model unless the model reports a tie"),
		&|| distinct_time_case().boxed(),
		&run,
	);
	e.explore(
		"random-general",
		LegOpts::det(e.tier.pick(6_000, 120_000), "general job-case generator (ties frequent): model comparison when unambiguous, invariants otherwise"),
		&|| jobgen::job_case(jobgen::Profile::General).boxed(),
		&run,
	);
	e.require_label("random-distinct-times", "compared", 0.5);
}
