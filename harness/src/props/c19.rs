//! C19 — signal names and exit statuses convert consistently.
//!
//! Exhaustive tables (every nix signal × 3 spellings × 10 casings; Windows control
//! names; every wait status for codes 0–255 and signals 1–64 ± core bit) plus
//! generated legs (`--map-signal` strings through the real clap parser; arbitrary
//! strings for case-insensitivity).

use std::{os::unix::process::ExitStatusExt, process::ExitStatus, str::FromStr};

use clap::Parser;
use nix::sys::signal::Signal as NixSignal;
use proptest::prelude::*;
use serde::{Deserialize, Serialize};
use watchexec_events::ProcessEnd;
use watchexec_signals::Signal;

use crate::engine::{Engine, LegOpts, Outcome};

/// Reference: first-class signals by POSIX number (Linux x86-64), transcribed from signal(7).
fn reference_signal(n: i32) -> Signal {
	match n {
		1 => Signal::Hangup,
		2 => Signal::Interrupt,
		3 => Signal::Quit,
		9 => Signal::ForceStop,
		10 => Signal::User1,
		12 => Signal::User2,
		15 => Signal::Terminate,
		n => Signal::Custom(n),
	}
}

const FIRST_CLASS: &[(i32, &str)] = &[
	(1, "SIGHUP"),
	(2, "SIGINT"),
	(3, "SIGQUIT"),
	(9, "SIGKILL"),
	(10, "SIGUSR1"),
	(12, "SIGUSR2"),
	(15, "SIGTERM"),
];

/// Documented Windows control names (docs of `from_windows_str`) and their meaning, as numbers.
const WINDOWS_NAMES: &[(&str, i32)] = &[
	("CTRL-CLOSE", 1),
	("CTRL+CLOSE", 1),
	("CLOSE", 1),
	("CTRL-BREAK", 15),
	("CTRL+BREAK", 15),
	("BREAK", 15),
	("CTRL-C", 2),
	("CTRL+C", 2),
	("C", 2),
	("STOP", 9),
	("FORCE-STOP", 9),
	("KILL", 9),
	("SIGKILL", 9),
];

const MASKS: &[u64] = &[
	u64::MAX,
	0,
	0x5555_5555_5555_5555,
	0xAAAA_AAAA_AAAA_AAAA,
	0x3333_3333_3333_3333,
	0x9249_2492_4924_9249,
	0x0F0F_0F0F_0F0F_0F0F,
	0xDEAD_BEEF_1234_5678,
	0x1,
	0xFFFF_FFFF_FFFF_FFFE,
];

fn apply_case(s: &str, mask: u64) -> String {
	s.chars()
		.enumerate()
		.map(|(i, c)| {
			if (mask >> (i % 64)) & 1 == 1 {
				c.to_ascii_uppercase()
			} else {
				c.to_ascii_lowercase()
			}
		})
		.collect()
}

fn same(a: &Result<Signal, watchexec_signals::SignalParseError>, b: &Result<Signal, watchexec_signals::SignalParseError>) -> bool {
	match (a, b) {
		(Ok(x), Ok(y)) => x == y,
		(Err(_), Err(_)) => true,
		_ => false,
	}
}

#[derive(Clone, Debug, Serialize, Deserialize)]
pub struct TableCase {
	pub num: i32,
	/// 0 long (SIGXXX), 1 short (XXX), 2 decimal number
	pub spelling: u8,
	pub mask: u64,
}

fn spelling_of(num: i32, spelling: u8) -> Option<String> {
	let nix = NixSignal::try_from(num).ok()?;
	let long = nix.as_str().to_string();
	Some(match spelling {
		0 => long,
		1 => long.strip_prefix("SIG").unwrap_or(&long).to_string(),
		_ => num.to_string(),
	})
}

fn windows_meaning(upper: &str) -> Option<i32> {
	WINDOWS_NAMES.iter().find(|(n, _)| *n == upper).map(|(_, m)| *m)
}

fn run_table(c: &TableCase) -> Outcome {
	let mut o = Outcome::pass();
	let Ok(nix) = NixSignal::try_from(c.num) else {
		o.fail("harness:invalid-signal-number", format!("{} is not a signal", c.num));
		return o;
	};
	let base = spelling_of(c.num, c.spelling).unwrap();
	let s = apply_case(&base, c.mask);
	let mixed = s != base && s != base.to_ascii_lowercase();
	let first_class = !matches!(reference_signal(c.num), Signal::Custom(_));
	o.nontrivial = !first_class || mixed;
	o.label(["long", "short", "number"][c.spelling.min(2) as usize]);
	if mixed {
		o.label("mixed-case");
	}
	if !first_class {
		o.label("non-first-class");
	}

	let upper = s.to_ascii_uppercase();
	let (expected, windows_override) = match windows_meaning(&upper) {
		Some(m) => (reference_signal(m), m != c.num),
		None => (reference_signal(c.num), false),
	};
	if windows_override {
		o.label("windows-name-precedence");
	}

	let parsed = Signal::from_str(&s);
	match &parsed {
		Ok(p) if *p == expected => {}
		other => {
			o.fail(
				format!("parse-mismatch:{}", ["long", "short", "number"][c.spelling.min(2) as usize]),
				format!("parse({s:?}) = {other:?}, expected Ok({expected:?}) for signal {} ({nix:?})", c.num),
			);
			return o;
		}
	}
	if !windows_override {
		if parsed.as_ref().unwrap().to_nix() != Some(nix) {
			o.fail(
				"to-nix-mismatch",
				format!("parse({s:?}).to_nix() = {:?}, expected {nix:?}", parsed.unwrap().to_nix()),
			);
			return o;
		}
	}
	// unix-only parser agrees except for the documented control names
	let unix = Signal::from_unix_str(&s);
	match &unix {
		Ok(p) if *p == reference_signal(c.num) => {}
		other => {
			o.fail(
				"from-unix-str-mismatch",
				format!("from_unix_str({s:?}) = {other:?}, expected {:?}", reference_signal(c.num)),
			);
			return o;
		}
	}
	// case-insensitivity relative to the canonical upper / lower forms
	if !same(&parsed, &Signal::from_str(&s.to_ascii_uppercase())) || !same(&parsed, &Signal::from_str(&s.to_ascii_lowercase())) {
		o.fail("case-sensitive", format!("parse({s:?}) differs from its upper/lower-case form"));
		return o;
	}
	// conversions
	let reference = reference_signal(c.num);
	if Signal::from(c.num) != reference {
		o.fail("from-i32-mismatch", format!("Signal::from({}) = {:?}, expected {reference:?}", c.num, Signal::from(c.num)));
		return o;
	}
	if Signal::from_nix(nix) != reference {
		o.fail("from-nix-mismatch", format!("from_nix({nix:?}) = {:?}, expected {reference:?}", Signal::from_nix(nix)));
		return o;
	}
	if reference.to_nix() != Some(nix) || reference.to_nix().map(|s| s as i32) != Some(c.num) {
		o.fail("to-nix-mismatch", format!("{reference:?}.to_nix() = {:?}, expected {nix:?}", reference.to_nix()));
		return o;
	}
	// display round trip: same OS signal
	let shown = reference.to_string();
	match Signal::from_str(&shown) {
		Ok(back) if back.to_nix() == Some(nix) => {}
		other => {
			o.fail(
				"display-roundtrip",
				format!("display({reference:?}) = {shown:?} parses to {other:?}, expected the OS signal {nix:?}"),
			);
			return o;
		}
	}
	if let Some((_, name)) = FIRST_CLASS.iter().find(|(n, _)| *n == c.num) {
		if shown != *name {
			o.fail("display-name", format!("display({reference:?}) = {shown:?}, expected {name:?}"));
		}
	}
	o
}

#[derive(Clone, Debug, Serialize, Deserialize)]
pub struct WinCase {
	pub name: String,
	pub mask: u64,
}

fn run_windows(c: &WinCase) -> Outcome {
	let mut o = Outcome::pass();
	let s = apply_case(&c.name, c.mask);
	o.nontrivial = true;
	let Some(m) = windows_meaning(&c.name.to_ascii_uppercase()) else {
		o.fail("harness:not-a-windows-name", c.name.clone());
		return o;
	};
	let expected = reference_signal(m);
	for (which, got) in [("from_str", Signal::from_str(&s)), ("from_windows_str", Signal::from_windows_str(&s))] {
		match got {
			Ok(g) if g == expected => {}
			other => {
				o.fail(
					format!("windows-name:{which}"),
					format!("{which}({s:?}) = {other:?}, expected Ok({expected:?})"),
				);
				return o;
			}
		}
	}
	o
}

#[derive(Clone, Debug, Serialize, Deserialize)]
pub struct StatusCase {
	pub raw: i32,
}

fn run_status(c: &StatusCase) -> Outcome {
	let mut o = Outcome::pass();
	let w = c.raw;
	let got = ProcessEnd::from(ExitStatus::from_raw(w));
	let low = w & 0x7f;
	let expected = if low == 0 {
		let code = (w >> 8) & 0xff;
		o.label("exited");
		if code == 0 {
			ProcessEnd::Success
		} else {
			ProcessEnd::ExitError(std::num::NonZeroI64::new(i64::from(code)).unwrap())
		}
	} else {
		o.label("signaled");
		if w & 0x80 != 0 {
			o.label("core-dumped");
		}
		ProcessEnd::ExitSignal(reference_signal(low))
	};
	o.nontrivial = w != 0;
	if got != expected {
		o.fail(
			if low == 0 { "exit-status:code" } else { "exit-status:signal" },
			format!("ProcessEnd::from(raw {w:#x}) = {got:?}, expected {expected:?}"),
		);
	}
	o
}

#[derive(Clone, Debug, Serialize, Deserialize)]
pub struct MapCase {
	pub from: TableCase,
	pub to: Option<TableCase>,
}

fn valid_signals() -> Vec<i32> {
	NixSignal::iterator().map(|s| s as i32).collect()
}

fn table_case_strategy() -> impl Strategy<Value = TableCase> {
	let sigs = valid_signals();
	(proptest::sample::select(sigs), 0u8..3, prop_oneof![Just(u64::MAX), Just(0u64), any::<u64>()])
		.prop_map(|(num, spelling, mask)| TableCase { num, spelling, mask })
}

fn expected_for(c: &TableCase) -> (String, Signal) {
	let s = apply_case(&spelling_of(c.num, c.spelling).unwrap(), c.mask);
	let e = match windows_meaning(&s.to_ascii_uppercase()) {
		Some(m) => reference_signal(m),
		None => reference_signal(c.num),
	};
	(s, e)
}

fn run_map(c: &MapCase) -> Outcome {
	let mut o = Outcome::pass();
	if NixSignal::try_from(c.from.num).is_err() || c.to.as_ref().map_or(false, |t| NixSignal::try_from(t.num).is_err()) {
		o.fail("harness:invalid-signal-number", "replay case holds an invalid number");
		return o;
	}
	let (fs, fe) = expected_for(&c.from);
	let (ts, te) = match &c.to {
		Some(t) => {
			let (s, e) = expected_for(t);
			(s, Some(e))
		}
		None => (String::new(), None),
	};
	o.nontrivial = c.to.is_some();
	if c.to.is_none() {
		o.label("discard-mapping");
	}
	let arg = format!("{fs}:{ts}");
	let parsed = watchexec_cli::args::Args::try_parse_from(["watchexec", "--map-signal", &arg, "--", "true"]);
	match parsed {
		Err(e) => o.fail("map-signal:rejected", format!("--map-signal {arg:?} rejected: {e}")),
		Ok(args) => {
			let m = &args.events.signal_map;
			if m.len() != 1 || m[0].from != fe || m[0].to != te {
				o.fail(
					"map-signal:mismatch",
					format!("--map-signal {arg:?} parsed to {m:?}, expected from={fe:?} to={te:?}"),
				);
			}
		}
	}
	o
}

#[derive(Clone, Debug, Serialize, Deserialize)]
pub struct FuzzCase {
	pub s: String,
}

fn run_fuzz(c: &FuzzCase) -> Outcome {
	let mut o = Outcome::pass();
	let s = &c.s;
	let a = Signal::from_str(s);
	let up = Signal::from_str(&s.to_ascii_uppercase());
	let lo = Signal::from_str(&s.to_ascii_lowercase());
	if a.is_ok() {
		o.label("parses");
		o.nontrivial = true;
	}
	if s.chars().any(|c| c.is_ascii_lowercase()) && s.chars().any(|c| c.is_ascii_uppercase()) {
		o.label("mixed-case");
	}
	if !same(&a, &up) || !same(&a, &lo) {
		o.fail(
			"case-sensitive",
			format!("parse({s:?}) = {a:?} but upper → {up:?}, lower → {lo:?}"),
		);
		return o;
	}
	// "the number" is an integer, however it is written (the parser is documented to support
	// integers): 015, +15 and 15 are the same number
	if let Ok(n) = i32::from_str(s) {
		if n.to_string() != *s {
			o.label("non-canonical-integer");
			let canon = Signal::from_str(&n.to_string());
			let canon_unix = Signal::from_unix_str(&n.to_string());
			if !same(&a, &canon) || !same(&Signal::from_unix_str(s), &canon_unix) {
				o.fail(
					"integer-spelling",
					format!("parse({s:?}) = {a:?} but the same integer written {:?} parses to {canon:?}", n.to_string()),
				);
				return o;
			}
		}
	}
	if let Ok(sig) = a {
		// whatever parses displays to something that parses to the same OS signal
		let shown = sig.to_string();
		match Signal::from_str(&shown) {
			Ok(back) if back.to_nix() == sig.to_nix() => {}
			other => o.fail(
				"display-roundtrip",
				format!("parse({s:?}) = {sig:?}, display {shown:?} parses to {other:?}"),
			),
		}
	}
	o
}

fn fuzz_strategy() -> BoxedStrategy<FuzzCase> {
	let mut frags: Vec<String> = vec!["SIG".into(), "sig".into(), "ctrl".into(), "-".into(), "+".into(), " ".into(), "0".into(), "+".into()];
	for s in NixSignal::iterator() {
		frags.push(s.as_str().to_string());
		frags.push(s.as_str().trim_start_matches("SIG").to_string());
		frags.push((s as i32).to_string());
	}
	for (n, _) in WINDOWS_NAMES {
		frags.push((*n).to_string());
	}
	let frag = proptest::sample::select(frags);
	prop_oneof![
		3 => (proptest::collection::vec(frag, 1..3), any::<u64>()).prop_map(|(v, m)| FuzzCase { s: apply_case(&v.concat(), m) }),
		1 => "[ -~]{0,12}".prop_map(|s| FuzzCase { s }),
		1 => "\\PC{0,8}".prop_map(|s| FuzzCase { s }),
		1 => (-70i64..200).prop_map(|n| FuzzCase { s: n.to_string() }),
		1 => (-3i64..70, 0usize..4, 0u8..3).prop_map(|(n, zeros, sign)| FuzzCase {
			s: format!("{}{}{}", if n < 0 { "-" } else if sign == 1 { "+" } else { "" }, "0".repeat(zeros), n.abs()),
		}),
	]
	.boxed()
}

pub fn check(e: &Engine) {
	e.assume("Linux x86-64 signal numbering; Windows branches are not executed");
	let sigs = valid_signals();
	let mut table = Vec::new();
	for &num in &sigs {
		for spelling in 0..3u8 {
			for &mask in MASKS {
				table.push(TableCase { num, spelling, mask });
			}
		}
	}
	e.enumerate(
		"table",
		"every nix signal x {SIGXXX, XXX, number} x 10 casings; non-trivial = non-first-class signal or mixed-case spelling",
		true,
		table,
		&run_table,
	);
	let mut win = Vec::new();
	for (n, _) in WINDOWS_NAMES {
		for &mask in MASKS {
			win.push(WinCase { name: (*n).to_string(), mask });
		}
	}
	e.enumerate("windows-names", "every documented control name x 10 casings", true, win, &run_windows);

	let mut statuses = Vec::new();
	for code in 0..=255 {
		statuses.push(StatusCase { raw: code << 8 });
	}
	for sig in 1..=64 {
		statuses.push(StatusCase { raw: sig });
		statuses.push(StatusCase { raw: sig | 0x80 });
	}
	e.enumerate(
		"exit-status",
		"every wait status: exit codes 0-255; terminating signals 1-64 with and without the core bit; non-trivial = not plain success",
		true,
		statuses,
		&run_status,
	);

	e.explore(
		"map-signal",
		LegOpts::det(e.tier.pick(3000, 60000), "FROM:TO strings from generated spellings/casings through Args::try_parse_from; non-trivial = has a TO"),
		&|| {
			(table_case_strategy(), proptest::option::weighted(0.85, table_case_strategy()))
				.prop_map(|(from, to)| MapCase { from, to })
				.boxed()
		},
		&run_map,
	);
	e.explore(
		"arbitrary-strings",
		LegOpts::det(e.tier.pick(40000, 2_000_000), "strings from name fragments, printable ASCII, unicode, integers; non-trivial = parses"),
		&fuzz_strategy,
		&run_fuzz,
	);
	e.require_label("arbitrary-strings", "parses", 0.05);
	e.require_label("arbitrary-strings", "non-canonical-integer", 0.02);
	let mut spellings = Vec::new();
	for &num in &sigs {
		for zeros in 0..4usize {
			for plus in [false, true] {
				if zeros > 0 || plus {
					spellings.push(FuzzCase { s: format!("{}{}{num}", if plus { "+" } else { "" }, "0".repeat(zeros)) });
				}
			}
		}
	}
	e.enumerate(
		"integer-spellings",
		"every nix signal number written with 0-3 leading zeros and an optional plus sign; oracle: parses like the canonical spelling",
		true,
		spellings,
		&run_fuzz,
	);
	e.fuzz_leg("c19_signal", 6000000, 64, "coverage-guided libFuzzer (ASan) over raw strings; oracle inside the target: ASCII case-folding invariance of parsing, display round trip");
}
