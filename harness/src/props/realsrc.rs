//! C01 leg `real-sources`: OS signals and keyboard EOF delivered to a separate probe process
//! (`wxprobe`: library Watchexec with the real signal and keyboard sources) must each reach the
//! action handler in exactly one batch; signals the filter rejected never do (the filter records its
//! verdicts: it is not consulted for events the source marks urgent); no empty batch.

use std::{
	io::Write,
	process::{Command, Stdio},
	time::Duration,
};

use proptest::prelude::*;
use serde::{Deserialize, Serialize};

use super::{c08::Logs, realjob::mono_ns};
use crate::engine::Outcome;

pub const KINDS: [(&str, i32, bool); 6] = [
	("Hangup", libc::SIGHUP, false),
	("Interrupt", libc::SIGINT, true),
	("Quit", libc::SIGQUIT, false),
	("Terminate", libc::SIGTERM, true),
	("User1", libc::SIGUSR1, false),
	("User2", libc::SIGUSR2, false),
];

#[derive(Clone, Debug, PartialEq, Serialize, Deserialize)]
pub enum Act {
	Signal(u8),
	CloseStdin,
	/// bytes on stdin are not events
	Type,
}

#[derive(Clone, Debug, Serialize, Deserialize)]
pub struct SrcCase {
	pub throttle: u16,
	pub keyboard: bool,
	/// bit k set: the filter rejects signal kind k
	pub reject: u8,
	pub steps: Vec<(u16, Act)>,
	/// the keyboard source is switched (on <-> off) this many times at run time before the steps start
	#[serde(default)]
	pub toggles: u8,
	/// what `Type` writes to the probe's stdin (never an event, whatever it is): 0 a short line, 1 text without
	/// a newline, 2 a latin-1 line (not UTF-8), 3 binary with NULs and 0xFF, 4 one 20 KB line
	#[serde(default)]
	pub typed: u8,
}

pub fn strategy() -> BoxedStrategy<SrcCase> {
	let act = prop_oneof![8 => (0u8..6).prop_map(Act::Signal), 1 => Just(Act::CloseStdin), 1 => Just(Act::Type)];
	(
		prop_oneof![Just(0u16), Just(20), Just(120)],
		proptest::bool::weighted(0.7),
		prop_oneof![2 => Just(0u8), 3 => 0u8..64],
		proptest::collection::vec((prop_oneof![Just(2u16), Just(15), Just(60), Just(150)], act), 1..9),
		prop_oneof![3 => Just(0u8), 1 => Just(1), 1 => Just(2), 1 => Just(3)],
		prop_oneof![1 => Just(0u8), 1 => Just(1), 3 => Just(2), 3 => Just(3), 1 => Just(4)],
	)
		.prop_map(|(throttle, keyboard, reject, mut steps, toggles, typed)| {
			// two thirds of the cases that close stdin type something first
			if (usize::from(typed) + steps.len()) % 3 != 0 {
				if let Some(i) = steps.iter().position(|(_, a)| *a == Act::CloseStdin) {
					steps.insert(i, (15, Act::Type));
				}
			}
			SrcCase { throttle, keyboard, reject, steps, toggles, typed }
		})
		.boxed()
}

pub fn probe_path() -> std::path::PathBuf {
	std::env::current_exe().unwrap().parent().unwrap().join("wxprobe")
}

pub fn run(c: &SrcCase) -> Outcome {
	let mut o = Outcome::pass();
	let logs = Logs::new("vh-c01s-");
	// the state the keyboard source is in when the steps start
	let keyboard_on = c.keyboard ^ (c.toggles % 4 % 2 == 1);
	let rejected: Vec<&str> = KINDS.iter().enumerate().filter(|(k, _)| c.reject & (1 << k) != 0).map(|(_, x)| x.0).collect();
	let child = Command::new(probe_path())
		.arg("--log")
		.arg(logs.log())
		.arg("--throttle")
		.arg(c.throttle.to_string())
		.arg("--keyboard")
		.arg(if c.keyboard { "1" } else { "0" })
		.arg("--reject")
		.arg(rejected.join(","))
		.arg("--keyboard-toggles")
		.arg((c.toggles % 4).to_string())
		.stdin(Stdio::piped())
		.stdout(Stdio::null())
		.stderr(Stdio::null())
		.spawn();
	let mut child = match child {
		Ok(c) => c,
		Err(e) => {
			o.fail("env:probe-spawn", e.to_string());
			return o;
		}
	};
	let pid = child.id() as i32;
	let mut stdin = child.stdin.take();
	let until = mono_ns() + 8_000_000_000;
	let ready = loop {
		if logs.lines().iter().any(|l| l.first().map(String::as_str) == Some("ready")) {
			break true;
		}
		if mono_ns() > until {
			break false;
		}
		std::thread::sleep(Duration::from_millis(3));
	};
	if !ready {
		let _ = child.kill();
		let _ = child.wait();
		o.fail("env:probe-not-ready", format!("probe did not report ready within 8 s\ncase {c:?}"));
		return o;
	}
	std::thread::sleep(Duration::from_millis(120));
	// the same signal kind is never sent twice within 300 ms: standard signals do not queue, two
	// pending instances of one kind are one delivery
	let mut last_sent = [0u64; 6];
	let mut sent = [0usize; 6];
	let mut closed = false;
	for (gap, act) in &c.steps {
		std::thread::sleep(Duration::from_millis(u64::from(*gap)));
		match act {
			Act::Signal(k) => {
				let k = usize::from(*k) % 6;
				let now = mono_ns();
				if last_sent[k] != 0 && now < last_sent[k] + 300_000_000 {
					std::thread::sleep(Duration::from_nanos(last_sent[k] + 300_000_000 - now));
				}
				unsafe {
					libc::kill(pid, KINDS[k].1);
				}
				last_sent[k] = mono_ns();
				sent[k] += 1;
			}
			Act::CloseStdin => {
				closed |= stdin.take().is_some();
			}
			Act::Type => {
				if let Some(s) = stdin.as_mut() {
					let long = vec![b'y'; 20_000];
					let bytes: &[u8] = match c.typed % 5 {
						0 => b"x\n",
						1 => b"no newline",
						2 => b"caf\xe9 cr\xe8me\n",
						3 => b"\x00\xff\xfe\x80\n\x00\x01",
						_ => &long,
					};
					let _ = s.write_all(bytes);
					let _ = s.flush();
				}
			}
		}
	}
	// quiescence: every event sent has been either handled or rejected by the filter, or 3 s
	let total: usize = sent.iter().sum::<usize>() + usize::from(closed && keyboard_on);
	let until = mono_ns() + 3_000_000_000 + u64::from(c.throttle) * 1_000_000;
	loop {
		let l = logs.lines();
		let got = l.iter().filter(|l| l.first().map(String::as_str) == Some("ev")).count() + l.iter().filter(|l| l.len() >= 3 && l[0] == "asked" && l[2] == "false").count();
		if got >= total || mono_ns() > until {
			break;
		}
		std::thread::sleep(Duration::from_millis(5));
	}
	std::thread::sleep(Duration::from_millis(150 + u64::from(c.throttle)));
	let died = matches!(child.try_wait(), Ok(Some(_)));
	let _ = child.kill();
	let _ = child.wait();
	let lines = logs.lines();
	let dump = || format!("\ncase {c:?}\nsent per kind {sent:?}, stdin closed {closed}, rejected kinds {rejected:?}\nprobe log:\n{}", lines.iter().map(|l| format!("    {}", l.join(" "))).collect::<Vec<_>>().join("\n"));
	let evs: Vec<&Vec<String>> = lines.iter().filter(|l| l.first().map(String::as_str) == Some("ev")).collect();
	if c.steps.iter().any(|(_, a)| matches!(a, Act::Signal(_))) {
		o.label("signals");
	}
	if closed && keyboard_on {
		o.label("keyboard-eof");
		if let Some(i) = c.steps.iter().position(|(_, a)| *a == Act::CloseStdin) {
			if c.steps[..i].iter().any(|(_, a)| *a == Act::Type) && matches!(c.typed % 5, 2 | 3) {
				o.label("keyboard-eof-after-non-utf8-input");
			}
		}
	}
	if !rejected.is_empty() && (0..6).any(|k| sent[k] > 0 && c.reject & (1 << k) != 0) {
		o.label("rejected-signal-sent");
	}
	o.nontrivial = sent.iter().sum::<usize>() >= 2 || (closed && keyboard_on);
	if died {
		if evs.is_empty() && lines.iter().all(|l| l.first().map(String::as_str) != Some("mainend")) {
			// killed by the default action of the very first signal: the listeners were not registered yet
			o.fail("env:probe-not-listening", format!("the probe died at its first signal{}", dump()));
		} else {
			o.fail("real-sources:probe-died", format!("the probe process ended by itself{}", dump()));
		}
		return o;
	}
	if lines.iter().any(|l| l.first().map(String::as_str) == Some("emptybatch")) {
		o.fail("empty-batch", format!("the action handler was invoked with an empty batch{}", dump()));
		return o;
	}
	let mut owed = usize::from(closed && keyboard_on);
	for (k, (name, _, _)) in KINDS.iter().enumerate() {
		let n = evs.iter().filter(|l| l.iter().any(|t| t == &format!("sig:{name}"))).count();
		// the filter is consulted for non-urgent events only; every "false" it returned is one event that
		// must not be delivered, everything else sent must be, once
		let rejected_n = lines.iter().filter(|l| l.len() >= 3 && l[0] == "asked" && l[1] == *name && l[2] == "false").count();
		let asked_n = lines.iter().filter(|l| l.len() >= 3 && l[0] == "asked" && l[1] == *name).count();
		if asked_n > sent[k] {
			o.fail("real-sources:filter-asked-more-often-than-sent", format!("signal {name}: sent {} times, the filter was asked {asked_n} times{}", sent[k], dump()));
			return o;
		}
		let want = sent[k] - rejected_n;
		owed += want;
		if n != want {
			let sig = if n > want && c.reject & (1 << k) != 0 {
				"rejected-signal-delivered"
			} else if n < want {
				"real-sources:signal-never-delivered"
			} else {
				"real-sources:signal-delivered-twice"
			};
			o.fail(sig, format!("signal {name}: sent {} times, rejected by the filter {rejected_n} times, expected in {want} handler events, found in {n}{}", sent[k], dump()));
			return o;
		}
	}
	let eofs = evs.iter().filter(|l| l.iter().any(|t| t == "kbd:Eof")).count();
	let want = usize::from(closed && keyboard_on);
	if eofs != want {
		o.fail(
			if eofs < want { "real-sources:keyboard-eof-never-delivered" } else { "real-sources:unexpected-keyboard-eof" },
			format!("keyboard EOF events: {eofs}, expected {want}{}", dump()),
		);
		return o;
	}
	if evs.len() != owed {
		o.fail("real-sources:unexpected-event", format!("{} events handled, {owed} owed{}", evs.len(), dump()));
	}
	o
}
