//! C14 — ignore-file discovery finds exactly the applicable files and prunes ignored dirs.

use std::{
	collections::BTreeSet,
	path::{Path, PathBuf},
};

use ignore_files::{from_origin, IgnoreFilesFromOriginArgs};
use project_origins::ProjectType;
use proptest::prelude::*;
use serde::{Deserialize, Serialize};

use crate::{
	engine::{Engine, LegOpts, Outcome},
	gitmodel::{parse_line, verdict_nearest_first, MFile, Verdict},
	patgen,
};

#[derive(Clone, Debug, Serialize, Deserialize)]
pub enum Content {
	Lines(Vec<String>),
	Empty,
	/// a directory with the ignore file's name
	IsDir,
	/// a non-empty file that cannot be loaded: 0 = its only line is an invalid glob ("notes["), 1 = it is not
	/// valid UTF-8. It is still a discovered ignore file, contributes no patterns, and must not keep the other
	/// ignore files of its directory from taking effect.
	Unloadable(u8),
	/// a symbolic link (relative or absolute, by the flag) to a regular file with these lines kept outside the tree
	Symlink(Vec<String>, bool),
}

#[derive(Clone, Debug, Serialize, Deserialize)]
pub struct IgSpec {
	/// directory (relative comps; empty = origin)
	pub dir: Vec<String>,
	/// 0 .ignore, 1 .gitignore, 2 .hgignore
	pub kind: u8,
	pub content: Content,
}

#[derive(Clone, Debug, Serialize, Deserialize)]
pub struct C14Case {
	/// extra directories (relative comps) besides those implied by ignore files
	pub dirs: Vec<Vec<String>>,
	pub igfiles: Vec<IgSpec>,
	/// origin-level VCS files: 0 .bzrignore, 1 _darcs/prefs/boring, 2 .fossil-settings/ignore-glob, 3 .git/info/exclude
	pub origin_vcs: Vec<(u8, Vec<String>)>,
	/// metadata dirs at the origin holding a decoy .gitignore: index into META
	pub meta_decoys: Vec<u8>,
	/// explicit watch list: indices into the sorted set of all directories (empty = none)
	pub watches: Vec<u16>,
	/// explicit ignore files (contents)
	pub explicit_ignores: Vec<Vec<String>>,
	/// ignore files of the tree itself (indices into `igfiles`) that are ALSO passed as explicit ignore files
	#[serde(default)]
	pub explicit_in_tree: Vec<u16>,
}

const META: &[&str] = &[".git", ".hg", ".bzr", "_darcs", ".fossil-settings", ".svn", ".pijul"];
const IGNAMES: &[(&str, Option<ProjectType>)] = &[(".ignore", None), (".gitignore", Some(ProjectType::Git)), (".hgignore", Some(ProjectType::Mercurial))];
const ORIGIN_VCS: &[(&str, ProjectType)] = &[
	(".bzrignore", ProjectType::Bazaar),
	("_darcs/prefs/boring", ProjectType::Darcs),
	(".fossil-settings/ignore-glob", ProjectType::Fossil),
	(".git/info/exclude", ProjectType::Git),
];

fn scratch() -> PathBuf {
	if Path::new("/dev/shm").is_dir() {
		PathBuf::from("/dev/shm")
	} else {
		std::env::temp_dir()
	}
}

type Found = BTreeSet<(PathBuf, Option<PathBuf>, Option<String>)>;

fn join(base: &Path, comps: &[String]) -> PathBuf {
	let mut p = base.to_path_buf();
	for c in comps {
		p.push(c);
	}
	p
}

struct Tree {
	_tmp: tempfile::TempDir,
	origin: PathBuf,
	explicit: Vec<PathBuf>,
	all_dirs: Vec<Vec<String>>,
}

/// Create the tree; `reverse` flips the creation order of siblings (tmpfs lists in creation order).
fn materialise(c: &C14Case, reverse: bool) -> Tree {
	let tmp = tempfile::Builder::new().prefix("vh-c14-").tempdir_in(scratch()).unwrap();
	let root = tmp.path().canonicalize().unwrap();
	let origin = root.join("o");
	std::fs::create_dir_all(&origin).unwrap();
	// directory set (closed under parents)
	let mut dirs: BTreeSet<Vec<String>> = BTreeSet::new();
	for d in c.dirs.iter().chain(c.igfiles.iter().map(|f| &f.dir)) {
		for k in 1..=d.len() {
			dirs.insert(d[..k].to_vec());
		}
	}
	let mut ordered: Vec<Vec<String>> = dirs.iter().cloned().collect();
	// parents before children in both orders; siblings flipped when reversed
	ordered.sort_by(|a, b| a.len().cmp(&b.len()).then(if reverse { b.cmp(a) } else { a.cmp(b) }));
	// one spec per (dir, kind) and per origin-level file: the first listed wins, whatever the creation order
	let mut seen_ig = BTreeSet::new();
	let igfiles: Vec<&IgSpec> = c.igfiles.iter().filter(|f| seen_ig.insert((f.dir.clone(), f.kind % 3))).collect();
	let mut seen_vcs = BTreeSet::new();
	let origin_vcs: Vec<&(u8, Vec<String>)> = c.origin_vcs.iter().filter(|f| seen_vcs.insert(f.0 % 4)).collect();
	let mut ops: Vec<Box<dyn Fn()>> = Vec::new();
	for d in &ordered {
		let p = join(&origin, d);
		ops.push(Box::new(move || {
			std::fs::create_dir_all(&p).unwrap();
		}));
	}
	for f in igfiles {
		let p = join(&origin, &f.dir).join(IGNAMES[f.kind as usize % 3].0);
		let content = f.content.clone();
		ops.push(Box::new(move || {
			if p.exists() {
				return;
			}
			match &content {
				Content::Lines(l) => std::fs::write(&p, l.join("\n") + "\n").unwrap(),
				Content::Empty => std::fs::write(&p, b"").unwrap(),
				Content::IsDir => std::fs::create_dir_all(&p).unwrap(),
				Content::Symlink(l, relative) => {
					// the target lives next to the origin, outside the walked tree
					let tdir = p.ancestors().find(|a| a.file_name().map_or(false, |n| n == "o")).and_then(|o| o.parent()).map(|r| r.join("link-targets")).unwrap();
					std::fs::create_dir_all(&tdir).unwrap();
					let name: String = p.strip_prefix(tdir.parent().unwrap()).unwrap().to_string_lossy().replace('/', "_");
					let target = tdir.join(name);
					std::fs::write(&target, l.join("\n") + "\n").unwrap();
					let link_to = if *relative {
						let depth = p.parent().unwrap().strip_prefix(tdir.parent().unwrap()).unwrap().components().count();
						let mut rel = PathBuf::new();
						for _ in 0..depth {
							rel.push("..");
						}
						rel.join("link-targets").join(target.file_name().unwrap())
					} else {
						target.clone()
					};
					std::os::unix::fs::symlink(link_to, &p).unwrap();
				}
				Content::Unloadable(k) => {
					if k % 2 == 0 {
						std::fs::write(&p, b"notes[\n").unwrap();
					} else {
						std::fs::write(&p, b"# caf\xe9\nbuild/\ntest/\n").unwrap();
					}
				}
			}
		}));
	}
	for (k, lines) in origin_vcs {
		let p = origin.join(ORIGIN_VCS[*k as usize % 4].0);
		// a bare `*` in a file that is loaded before the walk starts also matches the origin itself
		// (empty relative path): the "directory vs its own ignore file" case the properties leave open
		let lines: Vec<String> = lines.iter().map(|l| if l == "*" { "te*".to_string() } else { l.clone() }).collect();
		ops.push(Box::new(move || {
			std::fs::create_dir_all(p.parent().unwrap()).unwrap();
			if !p.exists() {
				std::fs::write(&p, lines.join("\n") + "\n").unwrap();
			}
		}));
	}
	for m in &c.meta_decoys {
		let d = origin.join(META[*m as usize % META.len()]);
		ops.push(Box::new(move || {
			std::fs::create_dir_all(d.join("sub")).unwrap();
			std::fs::write(d.join(".gitignore"), b"decoy\n").unwrap();
			std::fs::write(d.join("sub").join(".ignore"), b"decoy\n").unwrap();
		}));
	}
	if reverse {
		// keep "dirs first" (files need their dirs) but flip the order within the file groups
		let n = ordered.len();
		let (d, f) = ops.split_at_mut(n);
		let _ = d;
		f.reverse();
	}
	for op in &ops {
		op();
	}
	let exdir = root.join("explicit");
	std::fs::create_dir_all(&exdir).unwrap();
	let mut explicit = Vec::new();
	for (i, lines) in c.explicit_ignores.iter().enumerate() {
		let p = exdir.join(format!("ex{i}"));
		let lines: Vec<String> = lines.iter().map(|l| if l == "*" { "te*".to_string() } else { l.clone() }).collect();
		std::fs::write(&p, lines.join("\n") + "\n").unwrap();
		explicit.push(p);
	}
	for i in &c.explicit_in_tree {
		if c.igfiles.is_empty() {
			break;
		}
		let f = &c.igfiles[usize::from(*i) % c.igfiles.len()];
		// (a bare `*` in a file loaded before the walk would match the origin itself: the case left open)
		let usable = matches!(&f.content, Content::Lines(l) if !l.iter().any(|x| x == "*"));
		let p = join(&origin, &f.dir).join(IGNAMES[f.kind as usize % 3].0);
		if usable && is_nonempty_file(&p) && !explicit.contains(&p) && read_first_spec_matches(&p, f) {
			explicit.push(p);
		}
	}
	Tree {
		_tmp: tmp,
		origin,
		explicit,
		all_dirs: dirs.into_iter().collect(),
	}
}

/// The file on disk holds this spec's lines (with duplicate specs for one path the first listed wins).
fn read_first_spec_matches(p: &Path, f: &IgSpec) -> bool {
	match &f.content {
		Content::Lines(l) => std::fs::read_to_string(p).map_or(false, |t| t == l.join("\n") + "\n"),
		_ => false,
	}
}

fn is_nonempty_file(p: &Path) -> bool {
	// an ignore file may be a symbolic link to a regular file
	std::fs::metadata(p).map_or(false, |m| m.is_file() && m.len() > 0)
}

fn read_lines(p: &Path) -> Vec<crate::gitmodel::Line> {
	// a file that is not UTF-8 or holds an invalid glob is not loaded at all
	let Ok(text) = std::fs::read_to_string(p) else { return Vec::new() };
	if text.lines().any(|l| l.trim_end() == "notes[") {
		return Vec::new();
	}
	text.lines().filter_map(parse_line).collect()
}

/// Independent walker: returns the expected file set and the pruned directories that hold decoys.
fn reference(t: &Tree, watches: &[PathBuf]) -> (Found, usize) {
	let origin = &t.origin;
	let mut found: Found = BTreeSet::new();
	let mut mfiles: Vec<MFile> = Vec::new();
	for e in &t.explicit {
		found.insert((e.clone(), Some(origin.clone()), None));
		mfiles.push(MFile {
			applies_in: Some(origin.clone()),
			lines: read_lines(e),
		});
	}
	for (rel, pt) in ORIGIN_VCS {
		let p = origin.join(rel);
		if is_nonempty_file(&p) {
			found.insert((p.clone(), Some(origin.clone()), Some(format!("{pt:?}"))));
			mfiles.push(MFile {
				applies_in: Some(origin.clone()),
				lines: read_lines(&p),
			});
		}
	}
	// VCS metadata directories directly under the origin are never entered
	mfiles.push(MFile {
		applies_in: Some(origin.clone()),
		lines: META.iter().filter_map(|m| parse_line(&format!("/{m}"))).collect(),
	});
	let mut pruned_with_decoy = 0;
	let mut stack = vec![origin.clone()];
	while let Some(dir) = stack.pop() {
		if dir != *origin {
			// ignored by the ignore files above it?
			let above: Vec<MFile> = mfiles.iter().filter(|f| f.applies_in.as_ref().map_or(true, |d| dir.starts_with(d) && *d != dir)).cloned().collect();
			if verdict_nearest_first(origin, &above, &dir, true) == Verdict::Ignore {
				if has_ignore_file_below(&dir) {
					pruned_with_decoy += 1;
				}
				continue;
			}
		}
		if !(watches.is_empty() || watches.iter().any(|w| dir.starts_with(w) || w.starts_with(&dir))) {
			continue;
		}
		for (name, pt) in IGNAMES {
			let p = dir.join(name);
			if is_nonempty_file(&p) {
				found.insert((p.clone(), Some(dir.clone()), pt.map(|t| format!("{t:?}"))));
				mfiles.push(MFile {
					applies_in: Some(dir.clone()),
					lines: read_lines(&p),
				});
			}
		}
		if let Ok(rd) = std::fs::read_dir(&dir) {
			for e in rd.flatten() {
				if e.file_type().map_or(false, |t| t.is_dir()) {
					stack.push(e.path());
				}
			}
		}
	}
	(found, pruned_with_decoy)
}

fn has_ignore_file_below(dir: &Path) -> bool {
	let mut stack = vec![dir.to_path_buf()];
	while let Some(d) = stack.pop() {
		for (n, _) in IGNAMES {
			if is_nonempty_file(&d.join(n)) {
				return true;
			}
		}
		if let Ok(rd) = std::fs::read_dir(&d) {
			for e in rd.flatten() {
				if e.file_type().map_or(false, |t| t.is_dir()) {
					stack.push(e.path());
				}
			}
		}
	}
	false
}

fn discover(rt: &tokio::runtime::Runtime, t: &Tree, watches: &[PathBuf]) -> (Found, Vec<String>) {
	let args = IgnoreFilesFromOriginArgs::new_unchecked(&t.origin, watches.to_vec(), t.explicit.clone());
	let (files, errors) = rt.block_on(from_origin(args));
	let found: Found = files.into_iter().map(|f| (f.path, f.applies_in, f.applies_to.map(|t| format!("{t:?}")))).collect();
	(found, errors.into_iter().map(|e| e.to_string()).collect())
}

pub fn run(c: &C14Case) -> Outcome {
	let mut o = Outcome::pass();
	let rt = tokio::runtime::Builder::new_current_thread().enable_all().build().unwrap();
	let t = materialise(c, false);
	let watch_of = |t: &Tree| -> Vec<PathBuf> {
		let mut w: Vec<PathBuf> = c
			.watches
			.iter()
			.map(|i| {
				// the four highest values name the origin itself and directories above it (a watch on a parent
				// directory contains the whole project)
				if *i >= 0xFFFC {
					match *i {
						0xFFFC => t.origin.clone(),
						0xFFFD => PathBuf::from("/"),
						0xFFFE => t.origin.parent().and_then(Path::parent).unwrap_or(Path::new("/")).to_path_buf(),
						_ => t.origin.parent().unwrap_or(Path::new("/")).to_path_buf(),
					}
				} else if t.all_dirs.is_empty() {
					t.origin.clone()
				} else {
					join(&t.origin, &t.all_dirs[crate::engine::idx(*i, t.all_dirs.len())])
				}
			})
			.collect();
		w.sort();
		w.dedup();
		w
	};
	let watches = watch_of(&t);
	let (got, errors) = discover(&rt, &t, &watches);
	let (want, pruned_with_decoy) = reference(&t, &watches);
	// labels
	if pruned_with_decoy > 0 {
		o.label("pruned-subtree-with-ignore-file");
	}
	let prefix_pair = t.all_dirs.iter().any(|a| {
		t.all_dirs.iter().any(|b| {
			a.len() == b.len() && !a.is_empty() && a[..a.len() - 1] == b[..b.len() - 1] && a.last() != b.last() && b.last().unwrap().starts_with(a.last().unwrap().as_str())
		})
	});
	if prefix_pair {
		o.label("prefix-sibling-pair");
	}
	if c.watches.iter().any(|i| *i >= 0xFFFD) {
		o.label("watch-above-the-origin");
	}
	if !watches.is_empty() {
		o.label("explicit-watches");
	}
	if c.igfiles.iter().any(|f| !matches!(f.content, Content::Lines(_))) {
		o.label("empty-or-dir-ignore-file");
	}
	if !c.meta_decoys.is_empty() {
		o.label("vcs-metadata-decoys");
	}
	o.nontrivial = pruned_with_decoy > 0 || prefix_pair || !watches.is_empty();
	let strip = |f: &Found, root: &Path| -> Vec<String> {
		f.iter()
			.map(|(p, a, t)| format!("{} in {:?} as {t:?}", p.strip_prefix(root).unwrap_or(p).display(), a.as_ref().map(|a| a.strip_prefix(root).unwrap_or(a).display().to_string())))
			.collect()
	};
	let root = t.origin.parent().unwrap().to_path_buf();
	let has_unloadable = c.igfiles.iter().any(|f| matches!(f.content, Content::Unloadable(_)));
	if has_unloadable {
		o.label("unloadable-ignore-file");
	}
	if !errors.is_empty() && !has_unloadable {
		o.fail("discovery-errors", format!("errors on a fault-free tree: {errors:?}\ncase {c:?}"));
		return o;
	}
	if got != want {
		let missing: Vec<_> = strip(&want.difference(&got).cloned().collect(), &root);
		let extra: Vec<_> = strip(&got.difference(&want).cloned().collect(), &root);
		let sig = if !missing.is_empty() && extra.is_empty() {
			if prefix_pair { "missed-file:tree-with-prefix-siblings" } else { "missed-file" }
		} else if missing.is_empty() {
			if extra.iter().any(|e| META.iter().any(|m| e.starts_with(&format!("o/{m}/")) && !e.contains("info/exclude") && !e.contains("prefs/boring") && !e.contains("ignore-glob"))) {
				"reported-file-inside-vcs-metadata-dir"
			} else {
				"reported-file-that-does-not-apply"
			}
		} else {
			"set-differs"
		};
		o.fail(sig, format!("missing {missing:?}\nunexpected {extra:?}\nwatches {watches:?}\ncase {c:?}"));
		return o;
	}
	// listing-order independence: same tree created in the opposite order
	let t2 = materialise(c, true);
	let w2 = watch_of(&t2);
	let (got2, errors2) = discover(&rt, &t2, &w2);
	let root2 = t2.origin.parent().unwrap().to_path_buf();
	if (!errors2.is_empty() && !has_unloadable) || strip(&got2, &root2) != strip(&got, &root) {
		o.fail(
			"listing-order-dependence",
			format!("same tree created in the opposite order gives a different result:\n{:?}\nvs\n{:?}\nerrors {errors2:?}\ncase {c:?}", strip(&got, &root), strip(&got2, &root2)),
		);
	}
	o
}

fn strategy() -> BoxedStrategy<C14Case> {
	patgen::alpha()
		.prop_flat_map(|al| {
			let dirpath = proptest::collection::vec(al.dir(), 1..4);
			// patterns aimed at directories so that pruning is frequent
			let dpat = prop_oneof![
				3 => al.dir().prop_map(|d| format!("{d}/")),
				3 => al.dir(),
				2 => al.dir().prop_map(|d| format!("/{d}")),
				2 => (al.dir(), al.dir()).prop_map(|(a, b)| format!("{a}/{b}")),
				1 => al.dir().prop_map(|d| format!("!{d}/")),
				1 => al.dir().prop_map(|d| format!("!/{d}")),
				1 => Just("*".to_string()),
				1 => Just("te*".to_string()),
				2 => al.positive_pattern(),
			];
			let content = prop_oneof![16 => proptest::collection::vec(dpat.clone(), 1..4).prop_map(Content::Lines), 2 => Just(Content::Empty), 2 => Just(Content::IsDir), 1 => (0u8..2).prop_map(Content::Unloadable), 2 => (proptest::collection::vec(dpat.clone(), 1..4), any::<bool>()).prop_map(|(l, rel)| Content::Symlink(l, rel))];
			let ig = (proptest::collection::vec(al.dir(), 0..3), 0u8..3, content).prop_map(|(dir, kind, content)| IgSpec { dir, kind, content });
			(
				proptest::collection::vec(dirpath, 0..6),
				proptest::collection::vec(ig, 1..7),
				proptest::collection::vec((0u8..4, proptest::collection::vec(dpat.clone(), 1..3)), 0..2),
				proptest::collection::vec(0u8..7, 0..2),
				prop_oneof![3 => Just(vec![]), 1 => proptest::collection::vec(prop_oneof![4 => any::<u16>(), 1 => 0xFFFCu16..=0xFFFF], 1..3)],
				proptest::collection::vec(proptest::collection::vec(dpat, 1..3), 0..2),
				prop_oneof![2 => Just(vec![]), 1 => proptest::collection::vec(any::<u16>(), 1..3)],
			)
		})
		.prop_map(|(dirs, igfiles, origin_vcs, meta_decoys, watches, explicit_ignores, explicit_in_tree)| C14Case {
			dirs,
			igfiles,
			origin_vcs,
			meta_decoys,
			watches,
			explicit_ignores,
			explicit_in_tree,
		})
		.boxed()
}

pub fn check(e: &Engine) {
	e.assume("trees live on tmpfs (/dev/shm) so directory listing order follows creation order and can be flipped; symlinked directories, nested VCS metadata directories and .git/config core.excludesFile are not generated (symlinked ignore files are)");
	e.assume("a directory is pruned when the nearest-first evaluation (independent evaluator) of the ignore files in its strict ancestors, the explicit ignores, the origin-level VCS files and the origin's VCS metadata names yields Ignore");
	e.explore(
		"discovery",
		LegOpts::det(
			e.tier.pick(3_000, 60_000),
			"generated trees (depth <=3, names from a 3-name alphabet often containing test/tests), 1-6 ignore files (.ignore/.gitignore/.hgignore; non-empty, empty, a directory of that name, a file that cannot be loaded: invalid glob / not UTF-8, or a symbolic link to a regular file outside the tree) with directory-oriented patterns incl. negations, origin-level VCS files, VCS metadata dirs with decoys, explicit watch lists (directories of the tree, the origin itself, its parent, its grandparent or /) and explicit ignore files (separate files, and a third of the time also ignore files of the tree itself passed as explicit ones); result compared as a set with an independent walker; same tree created in the opposite order must give the same set; non-trivial = pruned subtree containing an ignore file, prefix-sibling pair, or explicit watch list",
		),
		&strategy,
		&run,
	);
	e.require_label("discovery", "pruned-subtree-with-ignore-file", 0.1);
	e.require_label("discovery", "prefix-sibling-pair", 0.1);
}
