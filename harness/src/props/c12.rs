//! C12 — explicit CLI filters are honoured under every mix of ignore-discovery flags.
//! In-process through hook H2: argv -> Args (parse + normalise) -> WatchexecFilterer -> verdicts.

use std::{
	ffi::OsString,
	path::{Path, PathBuf},
	sync::OnceLock,
};

use proptest::prelude::*;
use serde::{Deserialize, Serialize};
use watchexec::filter::Filterer;
use watchexec_events::{
	filekind::{CreateKind, DataChange, FileEventKind, ModifyKind},
	Event, FileType, Priority, Source, Tag,
};

use crate::engine::{Engine, LegOpts, Outcome};

const OPTS: [&str; 8] = ["none", "--ignore", "--ignore-file", "--filter", "--filter-file", "--exts", "--fs-events", "--ignore(negated)"];

const FLAGS: &[&str] = &[
	"--no-vcs-ignore",
	"--no-project-ignore",
	"--no-global-ignore",
	"--no-default-ignore",
	"--no-discover-ignore",
	"--ignore-nothing",
];

#[derive(Clone, Debug, Serialize, Deserialize)]
pub struct C12Case {
	/// bitmask over FLAGS
	pub flags: u8,
	/// 0 none, 1 --ignore, 2 --ignore-file, 3 --filter, 4 --filter-file, 5 --exts, 6 --fs-events
	pub option: u8,
	/// project shape
	pub suffix: u16,
	pub nested_depth: u8,
	pub relative_file_arg: bool,
	pub with_info_exclude: bool,
	/// what marks the project origin: 0 a `.git/` directory, 1 nothing at all (an exported tarball that still
	/// ships its .gitignore), 2 a `.hg/` directory only (the .gitignore files belong to another VCS)
	#[serde(default)]
	pub marker: u8,
}

/// Process-wide fake HOME with the global ignore files (environment is process-global, so it is
/// set once, before any case runs, and never changed).
fn home() -> &'static PathBuf {
	static H: OnceLock<PathBuf> = OnceLock::new();
	H.get_or_init(|| {
		let base = if Path::new("/dev/shm").is_dir() { PathBuf::from("/dev/shm") } else { std::env::temp_dir() };
		let h = base.join(format!("vh-c12-home-{}", std::process::id()));
		let _ = std::fs::remove_dir_all(&h);
		std::fs::create_dir_all(h.join("xdg/git")).unwrap();
		std::fs::create_dir_all(h.join("xdg/watchexec")).unwrap();
		std::fs::write(h.join("xdg/git/ignore"), "glob-git-only.tmp\nglob-both.tmp\n").unwrap();
		std::fs::write(h.join("xdg/watchexec/ignore"), "glob-app-only.tmp\nglob-both.tmp\n").unwrap();
		std::fs::create_dir_all(h.join("cwd")).unwrap();
		std::env::set_var("HOME", &h);
		std::env::set_var("XDG_CONFIG_HOME", h.join("xdg"));
		std::env::remove_var("WATCHEXEC_IGNORE_FILES");
		std::env::remove_var("WATCHEXEC_FILTER_FILES");
		std::env::remove_var("GIT_CONFIG_GLOBAL");
		std::env::set_var("GIT_CONFIG_NOSYSTEM", "1");
		std::env::set_current_dir(h.join("cwd")).unwrap();
		h
	})
}

struct Project {
	_tmp: tempfile::TempDir,
	/// a second watched directory next to (outside) the project origin
	shared: PathBuf,
	origin: PathBuf,
	nested: PathBuf,
	ignore_file: PathBuf,
	filter_file: PathBuf,
}

fn project(c: &C12Case) -> Project {
	let tmp = tempfile::Builder::new().prefix("vh-c12-").tempdir_in(home().parent().unwrap()).unwrap();
	let origin = tmp.path().canonicalize().unwrap().join("proj");
	match c.marker % 3 {
		0 => {
			std::fs::create_dir_all(origin.join(".git/objects")).unwrap();
			std::fs::create_dir_all(origin.join(".git/info")).unwrap();
		}
		1 => std::fs::create_dir_all(&origin).unwrap(),
		_ => std::fs::create_dir_all(origin.join(".hg/store")).unwrap(),
	}
	let n = c.suffix;
	std::fs::write(origin.join(".gitignore"), format!("vcs-only.{n}\n")).unwrap();
	std::fs::write(origin.join(".ignore"), format!("proj-only.{n}\n")).unwrap();
	if c.with_info_exclude && c.marker % 3 == 0 {
		std::fs::write(origin.join(".git/info/exclude"), format!("exclude-only.{n}\n")).unwrap();
	}
	let mut nested = origin.clone();
	for k in 0..=(c.nested_depth % 3) {
		nested.push(format!("sub{k}"));
	}
	std::fs::create_dir_all(&nested).unwrap();
	std::fs::write(nested.join(".gitignore"), format!("nested-vcs-only.{n}\n")).unwrap();
	let extra = origin.join("conf");
	std::fs::create_dir_all(&extra).unwrap();
	let ignore_file = extra.join("my.ignore");
	// the explicit file also re-includes a path that both global ignore files ignore: it has the last word
	std::fs::write(&ignore_file, format!("explf-only.{n}\n!glob-both.tmp\ntwof-*.tmp2\n")).unwrap();
	// a second explicit ignore file, given after the first on the command line although its path sorts before
	// it: it re-includes one of the paths the first one ignores (the later file has the last word)
	std::fs::write(extra.join("a-later.ignore"), "!twof-keep.tmp2\n").unwrap();
	let filter_file = extra.join("my.filter");
	std::fs::write(&filter_file, "# comment\n\nfiltf-*\n").unwrap();
	let shared = origin.parent().unwrap().join("shared");
	std::fs::create_dir_all(&shared).unwrap();
	Project {
		_tmp: tmp,
		shared,
		origin,
		nested,
		ignore_file,
		filter_file,
	}
}

fn argv(c: &C12Case, p: &Project, flags: u8, option: u8) -> Vec<OsString> {
	let mut v: Vec<OsString> = vec!["watchexec".into()];
	for (i, f) in FLAGS.iter().enumerate() {
		if flags >> i & 1 == 1 {
			v.push((*f).into());
		}
	}
	v.push("--project-origin".into());
	v.push(p.origin.clone().into());
	v.push("--workdir".into());
	v.push(p.origin.clone().into());
	v.push("-w".into());
	v.push(p.origin.clone().into());
	v.push("-w".into());
	v.push(p.shared.clone().into());
	let file_arg = |f: &Path| -> OsString {
		if c.relative_file_arg {
			f.strip_prefix(&p.origin).unwrap().as_os_str().to_owned()
		} else {
			f.as_os_str().to_owned()
		}
	};
	match option {
		1 => {
			v.push("--ignore".into());
			v.push(format!("expl-only.{}", c.suffix).into());
		}
		2 => {
			v.push("--ignore-file".into());
			// relative paths are documented relative to the project origin only via the origin join;
			// the filter reads the file itself by the path given, so keep it absolute unless cwd-independent
			v.push(if c.relative_file_arg { p.ignore_file.as_os_str().to_owned() } else { file_arg(&p.ignore_file) });
		}
		3 => {
			v.push("--filter".into());
			v.push("filt-*".into());
		}
		4 => {
			v.push("--filter-file".into());
			v.push(p.filter_file.as_os_str().to_owned());
		}
		5 => {
			v.push("--exts".into());
			v.push(if c.suffix % 2 == 0 { "rs".into() } else { ".rs".into() });
		}
		6 => {
			v.push("--fs-events".into());
			v.push("create".into());
		}
		7 => {
			// an explicit negated ignore that overlaps a built-in default: "do not ignore *.pyc"
			v.push("--ignore".into());
			v.push("!*.pyc".into());
		}
		_ => {}
	}
	v.push("--".into());
	v.push("true".into());
	v
}

fn ev(path: PathBuf, dir: bool, kind: FileEventKind) -> Event {
	Event {
		tags: vec![
			Tag::Source(Source::Filesystem),
			Tag::FileEventKind(kind),
			Tag::Path {
				path,
				file_type: Some(if dir { FileType::Dir } else { FileType::File }),
			},
		],
		metadata: Default::default(),
	}
}

/// (name, path, source index) — source: 0 vcs, 1 project generic, 2 nested vcs, 3 global git,
/// 4 global app, 5 built-in default (two probes), 6 .git/info/exclude
fn source_probes(c: &C12Case, p: &Project) -> Vec<(&'static str, PathBuf, u8)> {
	let n = c.suffix;
	let mut v = vec![
		("project .gitignore", p.origin.join(format!("vcs-only.{n}")), 0),
		("project .ignore", p.origin.join(format!("proj-only.{n}")), 1),
		("nested .gitignore", p.nested.join(format!("nested-vcs-only.{n}")), 2),
		("global git ignore", p.origin.join("glob-git-only.tmp"), 3),
		("global watchexec ignore", p.origin.join("glob-app-only.tmp"), 4),
		("built-in default *.pyc", p.origin.join("x.pyc"), 5),
		("built-in default .git/**", p.origin.join(".git/objects/y"), 5),
	];
	if c.with_info_exclude && c.marker % 3 == 0 {
		v.push((".git/info/exclude", p.origin.join(format!("exclude-only.{n}")), 6));
	}
	v
}

/// Does this flag set remove the given source? (table from the flag docs)
fn removed(flags: u8, source: u8) -> bool {
	let f = |i: usize| flags >> i & 1 == 1;
	let (no_vcs, no_project, no_global, no_default, no_discover, nothing) = (f(0), f(1), f(2), f(3), f(4), f(5));
	let no_discover = no_discover || nothing;
	match source {
		0 | 2 | 6 => no_vcs || no_project || no_discover,
		1 => no_project || no_discover,
		3 => no_vcs || no_global || no_discover,
		4 => no_global || no_discover,
		_ => no_default || nothing,
	}
}

fn verdicts(rt: &tokio::runtime::Runtime, argv: Vec<OsString>, events: &[Event]) -> Result<Vec<bool>, String> {
	rt.block_on(async {
		let args = watchexec_cli::verif::args_from(argv).await.map_err(|e| format!("args: {e:?}"))?;
		let f = watchexec_cli::verif::WatchexecFilterer::new(&args).await.map_err(|e| format!("filterer: {e:?}"))?;
		let mut out = Vec::new();
		for e in events {
			out.push(f.check_event(e, Priority::Normal).map_err(|e| format!("check: {e}"))?);
		}
		Ok(out)
	})
}

pub fn run(c: &C12Case) -> Outcome {
	let mut o = Outcome::pass();
	let _ = home();
	let rt = tokio::runtime::Builder::new_current_thread().enable_all().build().unwrap();
	let p = project(c);
	let flags = c.flags % 64;
	let option = c.option % 8;
	o.nontrivial = flags != 0 && option != 0;
	o.label(format!("option:{}", OPTS[option as usize]));
	o.label(["marker:.git", "marker:none", "marker:.hg"][(c.marker % 3) as usize]);
	let modify = FileEventKind::Modify(ModifyKind::Data(DataChange::Content));
	let create = FileEventKind::Create(CreateKind::File);
	let n = c.suffix;
	// explicit probes: (description, event, expected verdict when only the option is considered)
	let explicit: Vec<(&str, Event, Option<bool>)> = match option {
		1 => vec![("path matched by --ignore", ev(p.origin.join(format!("expl-only.{n}")), false, modify), Some(false)), ("unrelated path", ev(p.origin.join("plain.txt"), false, modify), Some(true))],
		2 => vec![
			("path matched by the --ignore-file", ev(p.origin.join(format!("explf-only.{n}")), false, modify), Some(false)),
			("unrelated path", ev(p.origin.join("plain.txt"), false, modify), Some(true)),
			("path ignored by the global ignore files and re-included by the --ignore-file", ev(p.origin.join("glob-both.tmp"), false, modify), Some(true)),
			("path ignored by the first --ignore-file and re-included by the second", ev(p.origin.join("twof-keep.tmp2"), false, modify), Some(true)),
			("path ignored by the first --ignore-file and not mentioned by the second", ev(p.origin.join("twof-drop.tmp2"), false, modify), Some(false)),
		],
		3 => vec![("path matched by --filter", ev(p.origin.join("filt-a.txt"), false, modify), Some(true)), ("path not matched by --filter", ev(p.origin.join("plain.txt"), false, modify), Some(false))],
		4 => vec![("path matched by the --filter-file", ev(p.origin.join("filtf-a.txt"), false, modify), Some(true)), ("path not matched by the --filter-file", ev(p.origin.join("plain.txt"), false, modify), Some(false))],
		5 => vec![("file with the extension", ev(p.origin.join("a.rs"), false, modify), Some(true)), ("file without the extension", ev(p.origin.join("plain.txt"), false, modify), Some(false))],
		6 => vec![("create event", ev(p.origin.join("plain.txt"), false, create), Some(true)), ("modify event (not in --fs-events)", ev(p.origin.join("plain.txt"), false, modify), Some(false))],
		7 => vec![("path re-included by the negated --ignore", ev(p.origin.join("x.pyc"), false, modify), Some(true)), ("unrelated path", ev(p.origin.join("plain.txt"), false, modify), Some(true))],
		_ => vec![("unrelated path", ev(p.origin.join("plain.txt"), false, modify), Some(true))],
	};
	// the same probes under the second watched directory, which lies outside the project origin: what the
	// option means there is not asserted, only that the discovery flags do not change it
	let mut explicit = explicit;
	let outside: Vec<(&str, Event, Option<bool>)> = explicit
		.iter()
		.map(|(_, e, _)| {
			let mut e2 = e.clone();
			for t in &mut e2.tags {
				if let Tag::Path { path, .. } = t {
					if let Ok(rel) = path.strip_prefix(&p.origin) {
						*path = p.shared.join(rel);
					}
				}
			}
			("the same probe under a watched directory outside the origin", e2, None)
		})
		.collect();
	explicit.extend(outside);
	let sources = source_probes(c, &p);
	let mut events: Vec<Event> = explicit.iter().map(|e| e.1.clone()).collect();
	// source probes use a kind that --fs-events create lets through
	let src_kind = if option == 6 { create } else { modify };
	events.extend(sources.iter().map(|s| ev(s.1.clone(), false, src_kind)));

	// option 2 in this leg: two --ignore-file options, the second one sorting before the first
	let argv2 = |flags: u8| {
		let mut av = argv(c, &p, flags, option);
		if option == 2 {
			let pos = av.len() - 2;
			av.insert(pos, "--ignore-file".into());
			av.insert(pos + 1, p.origin.join("conf").join("a-later.ignore").into_os_string());
		}
		av
	};
	let with_flags = match verdicts(&rt, argv2(flags), &events) {
		Ok(v) => v,
		Err(e) => {
			o.fail("harness:build", format!("{e}\ncase {c:?}"));
			return o;
		}
	};
	let without_flags = match verdicts(&rt, argv2(0), &events) {
		Ok(v) => v,
		Err(e) => {
			o.fail("harness:build", format!("{e}\ncase {c:?}"));
			return o;
		}
	};
	let flag_names: Vec<&str> = FLAGS.iter().enumerate().filter(|(i, _)| flags >> i & 1 == 1).map(|(_, f)| *f).collect();
	let opt_name = OPTS[option as usize];
	// explicit options behave the same whatever the discovery flags
	for (i, (what, _, expect)) in explicit.iter().enumerate() {
		if with_flags[i] != without_flags[i] {
			o.fail(
				format!("explicit-option-affected-by-flags:{opt_name}"),
				format!("{what}: passes={} with no flags but passes={} with {flag_names:?}\ncase {c:?}", without_flags[i], with_flags[i]),
			);
			return o;
		}
		if let Some(x) = expect {
			if without_flags[i] != *x {
				o.fail(format!("explicit-option-wrong:{opt_name}"), format!("{what}: passes={}, expected {x} (no discovery flags)\ncase {c:?}", without_flags[i]));
				return o;
			}
		}
	}
	// each flag removes exactly the sources it names — asserted when no positive filter would reject the probes anyway
	if !matches!(option, 3 | 4 | 5) {
		for (k, (what, path, source)) in sources.iter().enumerate() {
			if option == 7 && what.contains("*.pyc") {
				continue; // re-included by the explicit negation whatever the flags
			}
			let got_rejected = !with_flags[explicit.len() + k];
			// in a project with a `.git/` directory every source applies unless its flag removes it; in the other
			// layouts whether a VCS-specific source applies at all is not this property's business, only that a
			// flag naming it removes it and no other flag changes it
			let want_rejected = if c.marker % 3 == 0 { !removed(flags, *source) } else { !removed(flags, *source) && !without_flags[explicit.len() + k] };
			if got_rejected != want_rejected {
				o.fail(
					format!("source:{}:{}", what.replace(' ', "-"), if want_rejected { "dropped-by-unrelated-flag" } else { "kept-despite-flag" }),
					format!("{what} probe {path:?}: rejected={got_rejected} with flags {flag_names:?} and option {opt_name}, expected rejected={want_rejected}\ncase {c:?}"),
				);
				return o;
			}
		}
	}
	o
}

// ------------------------------------------------------------------ end-to-end leg
// The real CLI (`wx` = watchexec_cli::run(), so the real get_args() normalisation, config wiring and
// fs watcher) in --only-emit-events mode on a real project directory: which created / modified
// files are reported.

fn run_e2e(c: &C12Case) -> Outcome {
	use std::io::{BufRead, BufReader};
	use std::sync::{Arc, Mutex};
	use std::time::{Duration, Instant};
	let mut o = Outcome::pass();
	let h = home().clone();
	let p = project(c);
	let flags = c.flags % 64;
	let option = c.option % 8;
	o.nontrivial = flags != 0 && option != 0;
	let opt_name = OPTS[option as usize];
	o.label(format!("option:{opt_name}"));
	let n = c.suffix;
	// a file that exists before the watcher starts, for the modify probe of --fs-events
	let pre = p.origin.join(if option == 5 { "pre-existing.rs" } else { "filt-filtf-pre-existing.txt" });
	std::fs::write(&pre, "0").unwrap();
	let mut av = argv(c, &p, flags, option);
	av.truncate(av.len() - 2); // drop "-- true"
	av.remove(0);
	av.push("--only-emit-events".into());
	av.push("--emit-events-to=stdio".into());
	// the explicit ignore / filter file may equally be named through the environment
	let mut env_file: Option<(&str, std::ffi::OsString)> = None;
	if matches!(option, 2 | 4) && c.suffix % 2 == 0 {
		let flag = if option == 2 { "--ignore-file" } else { "--filter-file" };
		if let Some(i) = av.iter().position(|a| a == flag) {
			let file = av.remove(i + 1);
			av.remove(i);
			env_file = Some((if option == 2 { "WATCHEXEC_IGNORE_FILES" } else { "WATCHEXEC_FILTER_FILES" }, file));
			o.label("explicit-file-via-environment");
		}
	}
	// "dotfiles" layout: the global configuration directory lies inside the project origin
	let xdg = if c.suffix % 3 == 0 {
		let x = p.origin.join("xdgconf");
		std::fs::create_dir_all(x.join("git")).unwrap();
		std::fs::create_dir_all(x.join("watchexec")).unwrap();
		std::fs::write(x.join("git/ignore"), "glob-git-only.tmp\nglob-both.tmp\n").unwrap();
		std::fs::write(x.join("watchexec/ignore"), "glob-app-only.tmp\nglob-both.tmp\n").unwrap();
		o.label("global-config-inside-the-project");
		x
	} else {
		h.join("xdg")
	};
	let mut cmd = std::process::Command::new(super::c18::wx_path());
	cmd.args(&av)
		.current_dir(&p.origin)
		.env("HOME", &h)
		.env("XDG_CONFIG_HOME", &xdg)
		.env("GIT_CONFIG_NOSYSTEM", "1")
		.env_remove("WATCHEXEC_IGNORE_FILES")
		.env_remove("WATCHEXEC_FILTER_FILES")
		.env_remove("GIT_CONFIG_GLOBAL")
		.env_remove("RUST_LOG");
	if let Some((k, v)) = &env_file {
		cmd.env(k, v);
	}
	let mut child = match cmd
		.stdin(std::process::Stdio::null())
		.stdout(std::process::Stdio::piped())
		.stderr(std::process::Stdio::piped())
		.spawn()
	{
		Ok(c) => c,
		Err(e) => {
			o.fail("env:wx-spawn", e.to_string());
			return o;
		}
	};
	let lines: Arc<Mutex<Vec<String>>> = Arc::new(Mutex::new(Vec::new()));
	let reader = {
		let lines = lines.clone();
		let out = child.stdout.take().unwrap();
		std::thread::spawn(move || {
			for l in BufReader::new(out).lines().map_while(Result::ok) {
				lines.lock().unwrap().push(l);
			}
		})
	};
	let seen = |path: &Path| -> bool {
		let suffix = format!(":{}", path.display());
		lines.lock().unwrap().iter().any(|l| l.ends_with(&suffix))
	};
	// names that pass whatever explicit option is in force
	let passing = |stem: &str| -> PathBuf {
		p.origin.join(match option {
			3 => format!("filt-{stem}.txt"),
			4 => format!("filtf-{stem}.txt"),
			5 => format!("{stem}.rs"),
			_ => format!("{stem}.txt"),
		})
	};
	let finish = |child: &mut std::process::Child| -> String {
		let _ = child.kill();
		let _ = child.wait();
		let mut err = String::new();
		if let Some(mut e) = child.stderr.take() {
			use std::io::Read;
			let _ = e.read_to_string(&mut err);
		}
		err
	};
	// readiness: keep creating sentinels until one is reported
	let t0 = Instant::now();
	let mut k = 0;
	let ready = loop {
		let s = passing(&format!("ready{k}"));
		let _ = std::fs::write(&s, "x");
		let until = Instant::now() + Duration::from_millis(150);
		let mut ok = false;
		while Instant::now() < until {
			if seen(&s) {
				ok = true;
				break;
			}
			std::thread::sleep(Duration::from_millis(5));
		}
		if ok {
			break true;
		}
		k += 1;
		if t0.elapsed() > Duration::from_secs(8) || matches!(child.try_wait(), Ok(Some(_))) {
			break false;
		}
	};
	if !ready {
		let exited = matches!(child.try_wait(), Ok(Some(_)));
		let err = finish(&mut child);
		let _ = reader.join();
		// the CLI refusing these arguments, or reporting nothing at all for a plainly passing file, is a finding, not an environment problem
		o.fail(
			if exited { format!("e2e:cli-exited:{opt_name}") } else { format!("e2e:passing-file-never-reported:{opt_name}") },
			format!("no sentinel was reported within 8 s (wx exited: {exited})\nargv {av:?}\nstderr: {}\ncase {c:?}", err.chars().take(600).collect::<String>()),
		);
		return o;
	}
	// probes: (description, path, expect reported, how: true = create, false = modify the pre-existing file)
	let mut probes: Vec<(String, PathBuf, bool, bool)> = Vec::new();
	match option {
		1 => probes.push(("path matched by --ignore".into(), p.origin.join(format!("expl-only.{n}")), false, true)),
		2 => {
			probes.push(("path matched by the --ignore-file".into(), p.origin.join(format!("explf-only.{n}")), false, true));
			probes.push(("path ignored by the global ignore files and re-included by the --ignore-file".into(), p.origin.join("glob-both.tmp"), true, true));
		}
		3 => probes.push(("path not matched by --filter".into(), p.origin.join("plain.txt"), false, true)),
		4 => probes.push(("path not matched by the --filter-file".into(), p.origin.join("plain.txt"), false, true)),
		5 => probes.push(("file without the extension".into(), p.origin.join("plain.txt"), false, true)),
		6 => probes.push(("modify event (not in --fs-events)".into(), pre.clone(), false, false)),
		7 => probes.push(("path re-included by the negated --ignore".into(), p.origin.join("reincluded.pyc"), true, true)),
		_ => {}
	}
	probes.push(("file passing the explicit option".into(), passing("probe-pass"), true, true));
	if !matches!(option, 3 | 4 | 5) {
		for (what, path, source) in source_probes(c, &p) {
			if option == 7 && what.contains("*.pyc") {
				continue;
			}
			probes.push((what.to_string(), path, removed(flags, source), true));
		}
	}
	for (_, path, _, create) in &probes {
		if *create {
			let _ = std::fs::write(path, "x");
		} else {
			let _ = std::fs::write(path, "changed-content");
		}
		std::thread::sleep(Duration::from_millis(2));
	}
	// a final sentinel: once it has been reported everything before it has been through the filter
	let last = passing("zz-last");
	let _ = std::fs::write(&last, "x");
	let until = Instant::now() + Duration::from_secs(6);
	while Instant::now() < until && !seen(&last) {
		std::thread::sleep(Duration::from_millis(5));
	}
	let last_seen = seen(&last);
	std::thread::sleep(Duration::from_millis(250));
	let err = finish(&mut child);
	let _ = reader.join();
	let flag_names: Vec<&str> = FLAGS.iter().enumerate().filter(|(i, _)| flags >> i & 1 == 1).map(|(_, f)| *f).collect();
	let dump = || format!("\nflags {flag_names:?} option {opt_name}\nargv {av:?}\nreported:\n{}\nstderr: {}\ncase {c:?}", lines.lock().unwrap().join("\n"), err.chars().take(400).collect::<String>());
	if !last_seen {
		o.fail(format!("e2e:passing-file-never-reported:{opt_name}"), format!("the final sentinel {last:?} was not reported within 6 s{}", dump()));
		return o;
	}
	for (what, path, expect, _) in &probes {
		let got = seen(path);
		if got != *expect {
			let sig = if what.contains("--") || what.starts_with("file ") || what.starts_with("path ") {
				format!("e2e:explicit-option-wrong:{opt_name}")
			} else {
				format!("e2e:source:{}:{}", what.replace(' ', "-"), if *expect { "kept-despite-flag" } else { "dropped-by-unrelated-flag" })
			};
			o.fail(sig, format!("{what}: {path:?} reported={got}, expected reported={expect}{}", dump()));
			return o;
		}
	}
	o
}

fn e2e_strategy() -> BoxedStrategy<C12Case> {
	(0u8..64, 0u8..8, 0u16..50, 0u8..3, any::<bool>(), any::<bool>())
		.prop_map(|(flags, option, k, nested_depth, relative_file_arg, with_info_exclude)| C12Case {
			flags,
			option,
			suffix: 100 + k * 7 + u16::from(option),
			nested_depth,
			relative_file_arg,
			with_info_exclude,
			marker: 0,
		})
		.boxed()
}

fn all_cases(projects: u16) -> Vec<C12Case> {
	let mut v = Vec::new();
	for flags in 0..64u8 {
		for option in 0..8u8 {
			for k in 0..projects {
				v.push(C12Case {
					flags,
					option,
					suffix: 100 + k * 7 + u16::from(option),
					nested_depth: (k % 3) as u8,
					relative_file_arg: k % 2 == 1,
					with_info_exclude: k % 2 == 0,
					marker: 0,
				});
			}
			// the same matrix on a project without any VCS marker and on one with a `.hg/` directory only
			for marker in 1..3u8 {
				v.push(C12Case {
					flags,
					option,
					suffix: 800 + u16::from(marker) * 9 + u16::from(option),
					nested_depth: marker % 3,
					relative_file_arg: marker == 2,
					with_info_exclude: false,
					marker,
				});
			}
		}
	}
	v
}

pub fn check(e: &Engine) {
	let _ = home();
	e.assume("HOME, XDG_CONFIG_HOME and the cwd are pinned once per process to a scratch directory holding the global git and watchexec ignore files; system git config is disabled");
	e.assume("source-removal table transcribed from the flag docs; for --filter / --filter-file / --exts only the invariance of the explicit probes is asserted (a positive filter rejects the source probes anyway)");
	e.enumerate(
		"flag-matrix",
		"all 64 combinations of the six ignore-source flags x 8 explicit options (none, --ignore, --ignore-file (two of them, given in the reverse of their path order, the later one re-including a path the earlier one ignores), --filter, --filter-file, --exts, --fs-events, and a negated --ignore that overlaps a built-in default) x generated projects (a .git directory; plus one project without any VCS marker and one with only a .hg directory, where only 'a flag removes the sources it names and changes no other' is asserted; .gitignore, .ignore, nested .gitignore, .git/info/exclude, global git ignore, global watchexec ignore, paths hit only by the built-in defaults); one probe per source plus probes for the explicit option, inside the origin and under a second watched directory outside it; non-trivial = flag set non-empty and an explicit option given",
		true,
		all_cases(e.tier.pick(3, 40)),
		&run,
	);
	if !super::c18::wx_path().exists() {
		e.inconclusive("wx binary not built next to vcheck");
		return;
	}
	e.explore(
		"cli-e2e",
		LegOpts {
			cases: e.tier.pick(64, 1_800),
			shards: 16,
			threads: 16,
			confirm: 3,
			max_shrink_iters: 12,
			rule: "the real CLI process (wx = watchexec_cli::run(): real get_args normalisation, config wiring, ignore discovery and native fs watcher) in --only-emit-events text mode on a generated project (in a third of the cases with the global configuration directory inside the project origin), with a generated (flag set, explicit option) pair: after a readiness sentinel has been reported, one file per ignore source and per explicit-option probe is created (or modified, for --fs-events), then a final sentinel; a probe counts as passed iff a reported line names it; expected per the same tables as the in-process leg; non-trivial = flag set non-empty and an explicit option given",
			confirm_any: &[],
		},
		&e2e_strategy,
		&run_e2e,
	);
}
