//! C15 — runtime errors reach the error handler once and stop nothing unless elevated.
//! Also hosts the handler-reconfiguration leg of C13 (handlers replacing themselves / the path set
//! from inside, no deadlock, the invocation in progress finishes with the old closure).

use std::{collections::HashMap, sync::Arc, time::Duration};

use proptest::prelude::*;
use serde::{Deserialize, Serialize};

use crate::{
	engine::{Engine, LegOpts, Outcome},
	mockwatch::MockWorld,
	wxrun::{run as run_scenario, run_with, Ev, Run, Scenario},
};

pub fn error_ledger(sc: &Scenario, r: &Run, o: &mut Outcome) {
	let dump = || format!("\nscenario: {sc:?}\nsent: {:?}\nbatches: {:?}\nerrors: {:?}\nmain: {} quiesced: {}", r.sent, r.batches, r.errors.iter().map(|e| (&e.kind, e.id, e.generation)).collect::<Vec<_>>(), r.main_result, r.quiesced);
	let injected: Vec<u32> = r.sent.iter().filter(|s| s.ok && s.verdict == 2 && s.prio != 3 && s.shape != 4).map(|s| s.id).collect();
	let mut seen: HashMap<u32, usize> = HashMap::new();
	for e in r.errors.iter().filter(|e| e.kind == "filter") {
		if let Some(id) = e.id {
			*seen.entry(id).or_default() += 1;
		}
	}
	if let Some((id, n)) = seen.iter().find(|(_, n)| **n > 1) {
		o.fail("error-handled-twice", format!("filter error of event {id} reached the error handler {n} times{}", dump()));
		return;
	}
	if let Some(id) = seen.keys().find(|id| !injected.contains(id)) {
		o.fail("error-for-unknown-event", format!("error handler saw a filter error for event {id}, which did not error{}", dump()));
		return;
	}
	if let Some(e) = r.errors.iter().find(|e| e.kind == "other") {
		o.fail("unexpected-runtime-error", format!("{}{}", e.text, dump()));
		return;
	}
	let n_err = r.errors.len();
	let j = sc.err_j as usize;
	match sc.err_kind % 5 {
		3 | 4 if n_err > j => {
			// elevated / critical on the j-th error: main ends with exactly that
			let want = if sc.err_kind % 5 == 3 {
				match r.errors[j].id {
					Some(id) if r.errors[j].kind == "filter" => format!("elevated:{id}"),
					_ => "elevated".to_string(),
				}
			} else {
				"external".to_string()
			};
			if !r.main_result.starts_with(&want) {
				o.fail(
					if r.main_result.starts_with("other:cannot send internal runtime error") {
						"escalation-masked-by-error-channel-send"
					} else if sc.err_kind % 5 == 3 {
						"elevation-not-propagated"
					} else {
						"critical-not-propagated"
					},
					format!("error handler escalated on error #{j}, main ended with {:?}, expected {want:?}{}", r.main_result, dump()),
				);
			}
		}
		_ => {
			// nothing escalated: Watchexec keeps running, every injected error arrives exactly once
			if r.main_result != "ok" {
				o.fail(
					if r.main_result == "hang" { "main-did-not-end-after-quit" } else { "main-ended-with-error-without-elevation" },
					format!("no error was escalated but main ended with {:?}{}", r.main_result, dump()),
				);
				return;
			}
			let missing: Vec<u32> = injected.iter().filter(|id| !seen.contains_key(id)).copied().collect();
			if !missing.is_empty() {
				o.fail("error-never-reached-the-handler", format!("filter errors of events {missing:?} never reached the error handler{}", dump()));
				return;
			}
			if sc.err_kind % 5 == 2 && n_err >= 1 {
				// the handler replaced itself during its first invocation
				if r.errors[0].generation != 0 || r.errors.iter().skip(1).any(|e| e.generation != 1) {
					o.fail(
						"handler-replacement",
						format!("error handler replaced itself on its first call: generations seen {:?}, expected [0, 1, 1, ...]{}", r.errors.iter().map(|e| e.generation).collect::<Vec<_>>(), dump()),
					);
					return;
				}
			}
		}
	}
	// action handler replacing itself (and the path set) from inside: C13's handler clause
	if sc.replace_action_at > 0 && r.main_result == "ok" {
		let k = sc.replace_action_at as usize;
		let gens: Vec<u8> = r.batches.iter().map(|b| b.generation).collect();
		let ok = gens.iter().enumerate().all(|(i, g)| if i < k { *g == 0 } else { *g == 1 });
		if !ok {
			o.fail("handler-replacement", format!("action handler replaced itself during batch #{}: generations {gens:?}, expected 0 up to and including that batch, 1 afterwards{}", k - 1, dump()));
		}
	}
}

pub fn run(sc: &Scenario) -> Outcome {
	let mut o = Outcome::pass();
	let r = run_scenario(sc, None);
	let n_injected = r.sent.iter().filter(|s| s.ok && s.verdict == 2 && s.prio != 3 && s.shape != 4).count();
	let first_err = r.sent.iter().filter(|s| s.verdict == 2).map(|s| s.before_us).min();
	let accepted_after = first_err.map_or(false, |t| r.sent.iter().any(|s| s.verdict == 0 && s.before_us > t));
	let elevating = matches!(sc.err_kind % 5, 3 | 4);
	if n_injected >= 2 {
		o.label("2+errors");
	}
	if accepted_after {
		o.label("accepted-after-error");
	}
	if elevating && r.errors.len() > sc.err_j as usize {
		o.label("escalated");
	}
	if sc.err_chan <= 2 && n_injected > sc.err_chan as usize {
		o.label("burst-larger-than-error-queue");
	}
	if sc.replace_action_at > 0 || sc.err_kind % 5 == 2 {
		o.label("handler-replaces-itself");
	}
	o.nontrivial = (n_injected >= 2 && accepted_after) || (elevating && r.errors.len() > sc.err_j as usize);
	error_ledger(sc, &r, &mut o);
	if !elevating || r.errors.len() <= sc.err_j as usize {
		// containment: the rest of the ledger still balances
		super::c01::ledger(sc, &r, &mut o);
	}
	o
}

fn strategy() -> BoxedStrategy<Scenario> {
	(
		super::c01::scenario(true),
		prop_oneof![3 => Just(0u8), 2 => Just(1u8), 2 => Just(2u8), 2 => Just(3u8), 1 => Just(4u8)],
		0u8..3,
		prop_oneof![Just(1u32), Just(2), Just(64)],
		prop_oneof![3 => Just(0u8), 1 => 1u8..4],
		proptest::collection::vec(0u16..4, 0..10),
	)
		.prop_map(|(mut sc, err_kind, err_j, err_chan, replace_action_at, burst)| {
			sc.err_kind = err_kind;
			sc.err_j = err_j;
			sc.err_chan = err_chan;
			sc.replace_action_at = replace_action_at;
			// an error burst from one extra producer
			if !burst.is_empty() {
				sc.producers.push(burst.into_iter().map(|gap| Ev { gap, prio: 1, verdict: 2, shape: 0 }).collect());
			}
			sc
		})
		.boxed()
}

// ------------------------------------------------------------------ watcher-origin faults (mock watcher, H1)

#[derive(Clone, Debug, Serialize, Deserialize)]
pub struct FsCase {
	/// (gap ms, 0 = ok event, 1 = error from the watcher)
	pub emits: Vec<(u16, u8)>,
	pub fail_watch: bool,
	pub chan: u32,
	pub handler_ms: u16,
	/// additional paths (p2..) whose watch() fails, to make a burst of path errors
	#[serde(default)]
	pub extra_failing: u8,
	/// error queue size and slow error handler for that burst
	#[serde(default)]
	pub err_chan: u32,
	#[serde(default)]
	pub slow_err_handler: bool,
	/// notify error kind carried by the injected watch failures (mockwatch::ERR_KINDS)
	#[serde(default)]
	pub err_kind: u8,
}

fn run_fs(c: &FsCase) -> Outcome {
	let mut o = Outcome::pass();
	let world = MockWorld::default();
	let sc = Scenario {
		throttle: 5,
		chan: c.chan.max(1),
		err_chan: if c.err_chan == 0 { 64 } else { c.err_chan },
		handler_async: true,
		handler_ms: c.handler_ms,
		producers: vec![vec![Ev { gap: 300, prio: 1, verdict: 0, shape: 0 }]],
		err_kind: u8::from(c.slow_err_handler),
		err_j: 0,
		replace_action_at: 0,
		throttle_change: None,
		empty_errs: false,
		throttle_via_field: false,
		job_churn: None,
	};
	let w2 = world.clone();
	let fail = c.fail_watch;
	let extra = c.extra_failing.min(14) as usize;
	let mut all_paths: Vec<String> = vec!["/vh-c15/p0".into(), "/vh-c15/p1".into()];
	for k in 0..extra {
		all_paths.push(format!("/vh-c15/p{}", k + 2));
	}
	let failing: Vec<String> = all_paths.iter().enumerate().filter(|(i, _)| (*i == 1 && fail) || *i >= 2).map(|(_, p)| p.clone()).collect();
	let failing2 = failing.clone();
	let err_kind = c.err_kind;
	let install = move || {
		w2.install();
		w2.0.lock().unwrap().err_kind = err_kind;
		for p in &failing2 {
			w2.0.lock().unwrap().fail_next.push((p.into(), true));
		}
	};
	let emits = c.emits.clone();
	let w3 = world.clone();
	let side = move |_wx: Arc<watchexec::Watchexec>| -> std::pin::Pin<Box<dyn std::future::Future<Output = ()> + Send>> {
		let emits = emits.clone();
		let w = w3.clone();
		Box::pin(async move {
			// wait for the worker to have created the watcher
			for _ in 0..200 {
				if !w.live().is_empty() {
					break;
				}
				tokio::time::sleep(Duration::from_millis(2)).await;
			}
			for (k, (gap, kind)) in emits.iter().enumerate() {
				if *gap > 0 {
					tokio::time::sleep(Duration::from_millis(u64::from(*gap))).await;
				}
				let id = (1u32 << 24) | k as u32;
				if *kind == 0 {
					let ev = notify::Event::new(notify::EventKind::Create(notify::event::CreateKind::File))
						.add_path(format!("/vh-c15/p0/f{k}").into())
						.set_process_id(id);
					w.emit(Ok(ev));
				} else {
					w.emit(Err(notify::Error::generic(&format!("injected watcher error {k}"))));
				}
			}
		})
	};
	let path_refs: Vec<&str> = all_paths.iter().map(String::as_str).collect();
	let r = run_with(&sc, Some(&install), Some(&side), &path_refs);
	if world.callback_panics() > 0 {
		o.fail(
			"watcher-callback-panicked",
			format!("the event handler given to the watcher panicked {} time(s) when called from the watcher's own thread (outside the async runtime, as real watchers do)\ncase {c:?}", world.callback_panics()),
		);
		return o;
	}
	MockWorld::uninstall();
	let dump = || format!("\ncase: {c:?}\nbatches: {:?}\nerrors: {:?}\nmain: {}", r.batches, r.errors.iter().map(|e| (&e.kind, e.id)).collect::<Vec<_>>(), r.main_result);
	let n_ok = c.emits.iter().filter(|e| e.1 == 0).count();
	let n_err = c.emits.iter().filter(|e| e.1 != 0).count();
	if n_err > 0 {
		o.label("watcher-error");
	}
	if c.fail_watch {
		o.label("watch-failure");
	}
	let overflow = r.errors.iter().filter(|e| e.kind == "trysend").count();
	if overflow > 0 {
		o.label("queue-overflow");
	}
	o.nontrivial = overflow > 0 || n_err > 0 || c.fail_watch;
	if r.main_result != "ok" {
		o.fail("main-ended-with-error-without-elevation", format!("main ended with {:?}{}", r.main_result, dump()));
		return o;
	}
	let mut delivered: HashMap<u32, usize> = HashMap::new();
	for b in &r.batches {
		for id in b.ids.iter().flatten() {
			if id >> 24 == 1 {
				*delivered.entry(*id).or_default() += 1;
			}
		}
	}
	// the overflow error does not expose which event it dropped: account in aggregate
	let mut total_delivered = 0;
	for k in 0..c.emits.len() {
		if c.emits[k].1 != 0 {
			continue;
		}
		let id = (1u32 << 24) | k as u32;
		let d = delivered.get(&id).copied().unwrap_or(0);
		if d > 1 {
			o.fail("fs-event-delivered-twice", format!("watcher event {k} delivered {d} times{}", dump()));
			return o;
		}
		total_delivered += d;
	}
	if total_delivered + overflow > n_ok {
		o.fail("fs-event-delivered-and-reported", format!("{n_ok} watcher events, {total_delivered} delivered and {overflow} reported as dropped: some event was both{}", dump()));
		return o;
	}
	// errors raised from the watcher's callback are try_sent: with a small error queue and a slow
	// error handler they may be dropped ("at most once"), so "neither" is only a violation when
	// the error queue could not have been full
	let err_queue_roomy = sc.err_chan >= 64 && !c.slow_err_handler;
	if err_queue_roomy && total_delivered + overflow < n_ok {
		o.fail("fs-event-lost-silently", format!("{n_ok} watcher events, {total_delivered} delivered and {overflow} reported as dropped: some event was neither{}", dump()));
		return o;
	}
	let _ = n_ok;
	let fs_errs = r.errors.iter().filter(|e| e.kind == "fs-event").count();
	if fs_errs > n_err {
		o.fail("watcher-error-reported-twice", format!("{fs_errs} watcher errors reported, {n_err} raised{}", dump()));
		return o;
	}
	if err_queue_roomy && fs_errs < n_err {
		o.fail("watcher-error-lost", format!("{fs_errs} watcher errors reported, {n_err} raised (error queue of 64 was never full){}", dump()));
		return o;
	}
	let adds = r.errors.iter().filter(|e| e.kind == "path-add").count();
	if failing.len() > sc.err_chan as usize {
		o.label("path-error-burst-larger-than-queue");
	}
	// one error per path the notify error names (the configured path if it names none): a failure below a
	// recursive root names the sub-directory, not the root
	let named: Vec<String> = failing.iter().flat_map(|p| crate::mockwatch::reported_paths(c.err_kind, std::path::Path::new(p))).map(|p| p.to_string_lossy().into_owned()).collect();
	o.label(["error-names-the-path", "error-names-no-path", "error-names-a-sub-entry", "error-names-two-sub-entries"][(c.err_kind / 8 % 4) as usize]);
	if adds != named.len() {
		o.fail(
			if adds < named.len() { "path-error-lost" } else { "path-error-duplicated" },
			format!("{adds} PathAdd errors reached the handler, {} registrations failed naming {} paths{}", failing.len(), named.len(), dump()),
		);
		return o;
	}
	for p in &named {
		let n = r.errors.iter().filter(|e| e.kind == "path-add" && e.debug.contains(&format!("{p}\""))).count();
		if n != 1 {
			o.fail("path-error-names-wrong-path", format!("{n} PathAdd errors name {p}, expected exactly one{}", dump()));
			return o;
		}
	}
	// the other path of the same change was still registered
	let g = world.0.lock().unwrap();
	let live = g.instances.iter().rev().find(|i| i.live || !i.registered.is_empty());
	if !g.calls.iter().any(|c| matches!(c, crate::mockwatch::Call::Watch { path, ok: true, .. } if path.to_string_lossy() == "/vh-c15/p0")) {
		let _ = live;
		o.fail("failure-prevented-other-paths", format!("p0 was never registered: {:?}", g.calls));
	}
	o
}

pub fn check(e: &Engine) {
	e.assume("filter and handler faults: full in-process Watchexec in real time (shares the C01 runner, schedule-independent ledger); watcher-origin faults: mock watcher through hook H1 on a current-thread runtime");
	e.explore(
		"filter-and-handler-faults",
		LegOpts::realtime(
			e.tier.pick(2_000, 40_000),
			48,
			"C01 scenarios with error verdicts and an extra burst of erroring events; error handler ignores / is slow / replaces itself / elevates on the j-th error / raises a critical External on the j-th; error queue size 1, 2 or 64; optionally the action handler replaces itself and the path set from inside; non-trivial = >=2 errors with an accepted event after the first, or an escalation that took effect",
		),
		&strategy,
		&run,
	);
	e.require_label("filter-and-handler-faults", "2+errors", 0.3);
	e.require_label("filter-and-handler-faults", "escalated", 0.1);
	e.explore(
		"watcher-faults",
		LegOpts::realtime(
			e.tier.pick(300, 6_000),
			32,
			"synthetic notify events and errors emitted through the mock watcher's handler, event queue of 1/2/64 with a slow action handler (overflow), a failing watch() on one of two paths (the notify error names that path, no path, one entry below it or two entries below it: one PathAdd error per named path); each event delivered once or reported once, never both or neither; watcher errors exactly once; one PathAdd error naming the path; the other path still registered",
		),
		&|| {
			(
				proptest::collection::vec((0u16..6, prop_oneof![4 => Just(0u8), 1 => Just(1u8)]), 1..20),
				any::<bool>(),
				prop_oneof![Just(1u32), Just(2), Just(64)],
				prop_oneof![Just(0u16), Just(15), Just(40)],
				prop_oneof![2 => Just(0u8), 1 => 1u8..13],
				prop_oneof![Just(1u32), Just(2), Just(64)],
				any::<bool>(),
				0u8..32,
			)
				.prop_map(|(emits, fail_watch, chan, handler_ms, extra_failing, err_chan, slow_err_handler, err_kind)| FsCase { emits, fail_watch, chan, handler_ms, extra_failing, err_chan, slow_err_handler, err_kind })
				.boxed()
		},
		&run_fs,
	);
	e.require_label("watcher-faults", "queue-overflow", 0.1);
}
