//! C20 — project origins are exactly the marked ancestors; types match markers; every project
//! type is classified as exactly one of VCS / software suite.

use std::{
	collections::{BTreeSet, HashSet},
	path::{Path, PathBuf},
};

use project_origins::ProjectType;
use proptest::prelude::*;
use serde::{Deserialize, Serialize};

use crate::engine::{Engine, LegOpts, Outcome};

/// Recognised origin markers: (name, is_dir). Transcribed by hand.
pub const ORIGIN_MARKERS: &[(&str, bool)] = &[
	("_darcs", true),
	(".bzr", true),
	(".fossil-settings", true),
	(".git", true),
	(".github", true),
	(".hg", true),
	(".svn", true),
	(".asf.yaml", false),
	(".bzrignore", false),
	(".codecov.yml", false),
	(".ctags", false),
	(".editorconfig", false),
	(".git", false),
	(".gitattributes", false),
	(".gitmodules", false),
	(".hgignore", false),
	(".hgtags", false),
	(".perltidyrc", false),
	(".travis.yml", false),
	("appveyor.yml", false),
	("build.gradle", false),
	("build.properties", false),
	("build.xml", false),
	("Cargo.toml", false),
	("Cargo.lock", false),
	("cgmanifest.json", false),
	("CMakeLists.txt", false),
	("composer.json", false),
	("COPYING", false),
	("docker-compose.yml", false),
	("Dockerfile", false),
	("Gemfile", false),
	("LICENSE.txt", false),
	("LICENSE", false),
	("Makefile.am", false),
	("Makefile.pl", false),
	("Makefile.PL", false),
	("Makefile", false),
	("mix.exs", false),
	("moonshine-dependencies.xml", false),
	("package.json", false),
	("package-lock.json", false),
	("pnpm-lock.yaml", false),
	("yarn.lock", false),
	("pom.xml", false),
	("project.clj", false),
	("requirements.txt", false),
	("v.mod", false),
	("CONTRIBUTING.md", false),
	("go.mod", false),
	("go.sum", false),
	("Pipfile", false),
	("build.zig", false),
];

/// Marker -> project type, transcribed from the `ProjectType` variant docs ("Detects when ...").
pub fn type_markers() -> Vec<(&'static str, bool, ProjectType)> {
	use ProjectType::*;
	vec![
		(".bzr", true, Bazaar),
		(".bzrignore", false, Bazaar),
		("_darcs", true, Darcs),
		(".fossil-settings", true, Fossil),
		(".git", true, Git),
		(".git", false, Git),
		(".gitattributes", false, Git),
		(".gitmodules", false, Git),
		(".hg", true, Mercurial),
		(".hgignore", false, Mercurial),
		(".hgtags", false, Mercurial),
		(".svn", true, Subversion),
		("Gemfile", false, Bundler),
		(".ctags", false, C),
		("Cargo.toml", false, Cargo),
		("Dockerfile", false, Docker),
		("mix.exs", false, Elixir),
		("go.mod", false, Go),
		("go.sum", false, Go),
		("build.gradle", false, Gradle),
		("package.json", false, JavaScript),
		("cgmanifest.json", false, JavaScript),
		("project.clj", false, Leiningen),
		("pom.xml", false, Maven),
		(".perltidyrc", false, Perl),
		("Makefile.PL", false, Perl),
		("composer.json", false, PHP),
		("requirements.txt", false, Pip),
		("Pipfile", false, Pip),
		("v.mod", false, V),
		("build.zig", false, Zig),
	]
}

/// (variant, documented class: true = VCS, false = Soft)
pub fn variants() -> Vec<(&'static str, ProjectType, bool)> {
	use ProjectType::*;
	vec![
		("Bazaar", Bazaar, true),
		("Darcs", Darcs, true),
		("Fossil", Fossil, true),
		("Git", Git, true),
		("Mercurial", Mercurial, true),
		("Pijul", Pijul, true),
		("Subversion", Subversion, true),
		("Bundler", Bundler, false),
		("C", C, false),
		("Cargo", Cargo, false),
		("Docker", Docker, false),
		("Elixir", Elixir, false),
		("Go", Go, false),
		("Gradle", Gradle, false),
		("JavaScript", JavaScript, false),
		("Leiningen", Leiningen, false),
		("Maven", Maven, false),
		("Perl", Perl, false),
		("PHP", PHP, false),
		("Pip", Pip, false),
		("V", V, false),
		("Zig", Zig, false),
	]
}

#[derive(Clone, Debug, Serialize, Deserialize)]
pub struct VariantCase {
	pub name: String,
}

fn run_variant(c: &VariantCase) -> Outcome {
	let mut o = Outcome::pass();
	o.nontrivial = true;
	let Some((_, pt, vcs)) = variants().into_iter().find(|v| v.0 == c.name) else {
		o.fail("harness:unknown-variant", c.name.clone());
		return o;
	};
	let (is_vcs, is_soft) = (pt.is_vcs(), pt.is_soft());
	if is_vcs == is_soft {
		o.fail(
			if is_vcs { "classified-as-both" } else { "classified-as-neither" },
			format!("ProjectType::{} has is_vcs={is_vcs} and is_soft={is_soft}", c.name),
		);
	} else if is_vcs != vcs {
		o.fail("classification-differs-from-docs", format!("ProjectType::{} is documented as {} but is_vcs={is_vcs}", c.name, if vcs { "VCS" } else { "Soft" }));
	}
	o
}

#[derive(Clone, Debug, Serialize, Deserialize, PartialEq, Eq)]
pub enum Node {
	/// index into ORIGIN_MARKERS, created with the right node type
	Right(u8),
	/// created with the wrong node type (dir named Cargo.toml, file named .hg)
	Wrong(u8),
	/// not a marker
	Decoy(u8),
	/// a FIFO carrying the name of a file marker: neither a file nor a directory, so never a marker
	Special(u8),
}

#[derive(Clone, Debug, Serialize, Deserialize)]
pub struct ChainCase {
	/// entries per nested level (level 0 is directly under the temp root)
	pub levels: Vec<Vec<Node>>,
	/// start from this level (clamped)
	pub start: u8,
	/// 0 the directory itself, 1 a file inside it, 2 a non-existent leaf inside it
	pub start_kind: u8,
}

const DECOYS: &[&str] = &["README.md", "src", "main.rs", "cargo.toml", ".gitignore", "Makefile.bak", "go.work", ".hgrc"];

fn ref_is_origin(dir: &Path) -> bool {
	let Ok(rd) = std::fs::read_dir(dir) else { return false };
	for e in rd.flatten() {
		let Ok(ft) = e.file_type() else { continue };
		let name = e.file_name();
		let Some(name) = name.to_str() else { continue };
		if ORIGIN_MARKERS.iter().any(|(m, is_dir)| *m == name && ((*is_dir && ft.is_dir()) || (!*is_dir && ft.is_file()))) {
			return true;
		}
	}
	false
}

fn ref_types(dir: &Path) -> HashSet<ProjectType> {
	let mut out = HashSet::new();
	let Ok(rd) = std::fs::read_dir(dir) else { return out };
	for e in rd.flatten() {
		let Ok(ft) = e.file_type() else { continue };
		let name = e.file_name();
		let Some(name) = name.to_str() else { continue };
		for (m, is_dir, pt) in type_markers() {
			if m == name && ((is_dir && ft.is_dir()) || (!is_dir && ft.is_file())) {
				out.insert(pt);
			}
		}
	}
	out
}

fn scratch_root() -> PathBuf {
	let base = if Path::new("/dev/shm").is_dir() { PathBuf::from("/dev/shm") } else { std::env::temp_dir() };
	base
}

/// Creates the entries of one level in `cur`; returns (has a right-typed marker, has a wrong-typed one).
fn populate(cur: &Path, level: &[Node]) -> (bool, bool) {
	let mut wrong = false;
	let mut has_right = false;
	for n in level {
		let (name, as_dir) = match n {
			Node::Right(k) => {
				let (m, d) = ORIGIN_MARKERS[*k as usize % ORIGIN_MARKERS.len()];
				has_right = true;
				(m, d)
			}
			Node::Wrong(k) => {
				let (m, d) = ORIGIN_MARKERS[*k as usize % ORIGIN_MARKERS.len()];
				wrong = true;
				(m, !d)
			}
			Node::Decoy(k) => (DECOYS[*k as usize % DECOYS.len()], *k % 3 == 1),
			Node::Special(_) => continue, // second pass below
		};
		let p = cur.join(name);
		if p.exists() {
			// `.git` exists as both a file and a dir marker: first creation wins
			continue;
		}
		if as_dir {
			std::fs::create_dir(&p).unwrap();
		} else {
			std::fs::write(&p, b"x").unwrap();
		}
	}
	for n in level {
		if let Node::Special(k) = n {
			let (m, _) = ORIGIN_MARKERS[*k as usize % ORIGIN_MARKERS.len()];
			let p = cur.join(m);
			if !p.exists() {
				let cp = std::ffi::CString::new(std::os::unix::ffi::OsStrExt::as_bytes(p.as_os_str())).unwrap();
				unsafe {
					libc::mkfifo(cp.as_ptr(), 0o644);
				}
				wrong = true;
			}
		}
	}
	(has_right, wrong)
}

fn run_chain(c: &ChainCase) -> Outcome {
	let mut o = Outcome::pass();
	let tmp = match tempfile::Builder::new().prefix("vh-c20-").tempdir_in(scratch_root()) {
		Ok(t) => t,
		Err(e) => {
			o.fail("env:tempdir", e.to_string());
			return o;
		}
	};
	let mut dirs = Vec::new();
	let mut cur = tmp.path().to_path_buf();
	let mut marked_levels = 0;
	let mut wrong = false;
	for (i, level) in c.levels.iter().enumerate() {
		cur = cur.join(format!("l{i}"));
		std::fs::create_dir(&cur).unwrap();
		let (has_right, w) = populate(&cur, level);
		wrong |= w;
		if has_right {
			marked_levels += 1;
		}
		dirs.push(cur.clone());
	}
	if dirs.is_empty() {
		dirs.push(tmp.path().to_path_buf());
	}
	let start_dir = dirs[(c.start as usize).min(dirs.len() - 1)].clone();
	let start = match c.start_kind % 3 {
		0 => start_dir.clone(),
		1 => {
			let f = start_dir.join("zz-start-file.txt");
			std::fs::write(&f, b"x").unwrap();
			f
		}
		_ => start_dir.join("zz-does-not-exist"),
	};
	if marked_levels >= 2 {
		o.label("2+marked-levels");
	}
	if wrong {
		o.label("wrong-typed-marker");
	}
	o.label(["start:dir", "start:file", "start:missing"][(c.start_kind % 3) as usize]);
	o.nontrivial = marked_levels >= 2 || wrong;

	let rt = tokio::runtime::Builder::new_current_thread().enable_all().build().unwrap();
	let got: HashSet<PathBuf> = rt.block_on(project_origins::origins(&start));
	// expected: exactly the ancestors-or-self with a right-typed marker (real ancestors above the
	// temp root are judged by the same reference predicate on their real listing)
	let mut expected = BTreeSet::new();
	let mut chain = Vec::new();
	let mut p: Option<&Path> = Some(start.as_path());
	while let Some(d) = p {
		chain.push(d.to_path_buf());
		if ref_is_origin(d) {
			expected.insert(d.to_path_buf());
		}
		p = d.parent();
	}
	let got_sorted: BTreeSet<PathBuf> = got.iter().cloned().collect();
	if let Some(outside) = got_sorted.iter().find(|g| !chain.contains(g)) {
		o.fail("origin-outside-ancestor-chain", format!("origins({start:?}) returned {outside:?}, which is not the path or one of its ancestors"));
		return o;
	}
	if got_sorted != expected {
		let missing: Vec<_> = expected.difference(&got_sorted).collect();
		let extra: Vec<_> = got_sorted.difference(&expected).collect();
		let listing = |d: &Path| std::fs::read_dir(d).map(|r| r.flatten().map(|e| e.file_name().to_string_lossy().into_owned()).collect::<Vec<_>>()).unwrap_or_default();
		let detail: Vec<String> = missing.iter().chain(extra.iter()).map(|d| format!("{d:?}: {:?}", listing(d))).collect();
		o.fail(
			if !missing.is_empty() { "origin-missed" } else { "origin-invented" },
			format!("origins({start:?}): missing {missing:?}, unexpected {extra:?}\nlistings: {detail:?}"),
		);
		return o;
	}
	// types at every level of our chain
	for d in &dirs {
		let t: HashSet<ProjectType> = rt.block_on(project_origins::types(d));
		let r = ref_types(d);
		if t != r {
			let listing: Vec<String> = std::fs::read_dir(d).map(|r| r.flatten().map(|e| e.file_name().to_string_lossy().into_owned()).collect()).unwrap_or_default();
			o.fail("types-differ", format!("types({d:?}) = {t:?}, markers present imply {r:?}; listing {listing:?}"));
			return o;
		}
	}
	o
}

/// The same chains with the temp directory made the filesystem root of a helper process (chroot): level 0
/// is `/` itself, so project markers can sit in the root directory (a container image built with `COPY . /`).
fn run_chain_rooted(c: &ChainCase) -> Outcome {
	let mut o = Outcome::pass();
	let tmp = match tempfile::Builder::new().prefix("vh-c20r-").tempdir_in(scratch_root()) {
		Ok(t) => t,
		Err(e) => {
			o.fail("env:tempdir", e.to_string());
			return o;
		}
	};
	let root = tmp.path().to_path_buf();
	// (outer path, path as seen from inside)
	let mut dirs: Vec<(PathBuf, PathBuf)> = Vec::new();
	let mut cur = root.clone();
	let mut inner = PathBuf::from("/");
	let mut marked_levels = 0;
	let mut wrong = false;
	let mut root_marked = false;
	for (i, level) in c.levels.iter().enumerate() {
		if i > 0 {
			cur = cur.join(format!("l{i}"));
			inner = inner.join(format!("l{i}"));
			std::fs::create_dir(&cur).unwrap();
		}
		let (has_right, w) = populate(&cur, level);
		wrong |= w;
		if has_right {
			marked_levels += 1;
			root_marked |= i == 0;
		}
		dirs.push((cur.clone(), inner.clone()));
	}
	let (start_outer, start_inner) = dirs[(c.start as usize).min(dirs.len() - 1)].clone();
	let start_inner = match c.start_kind % 3 {
		0 => start_inner,
		1 => {
			std::fs::write(start_outer.join("zz-start-file.txt"), b"x").unwrap();
			start_inner.join("zz-start-file.txt")
		}
		_ => start_inner.join("zz-does-not-exist"),
	};
	if root_marked {
		o.label("marker-in-the-filesystem-root");
	}
	o.nontrivial = root_marked;
	let out = match std::process::Command::new(super::c18::helper_path()).arg("origins").arg(&root).arg(&start_inner).arg("/").output() {
		Ok(x) => String::from_utf8_lossy(&x.stdout).into_owned(),
		Err(e) => {
			o.fail("env:helper-spawn", e.to_string());
			return o;
		}
	};
	if out.contains("chroot-failed") {
		// not permitted here: nothing was explored
		o.label("chroot-unavailable");
		o.nontrivial = false;
		return o;
	}
	let unhex = |h: &str| -> PathBuf {
		let b: Vec<u8> = (0..h.len() / 2).filter_map(|i| u8::from_str_radix(&h[2 * i..2 * i + 2], 16).ok()).collect();
		PathBuf::from(std::ffi::OsString::from(String::from_utf8_lossy(&b).into_owned()))
	};
	// expected per queried path: the inside ancestors-or-self whose outside directory has a right-typed marker
	let outer_of = |p: &Path| -> PathBuf { root.join(p.strip_prefix("/").unwrap_or(p)) };
	for line in out.lines() {
		let f: Vec<&str> = line.split_whitespace().collect();
		match f.first() {
			Some(&"origins") if f.len() >= 2 => {
				let q = unhex(f[1]);
				let got: BTreeSet<PathBuf> = f[2..].iter().map(|h| unhex(h)).collect();
				let mut expected = BTreeSet::new();
				let mut p: Option<&Path> = Some(q.as_path());
				while let Some(d) = p {
					if ref_is_origin(&outer_of(d)) {
						expected.insert(d.to_path_buf());
					}
					p = d.parent();
				}
				if got != expected {
					let missing: Vec<_> = expected.difference(&got).collect();
					let extra: Vec<_> = got.difference(&expected).collect();
					let listing: Vec<String> = std::fs::read_dir(&root).map(|r| r.flatten().map(|e| e.file_name().to_string_lossy().into_owned()).collect()).unwrap_or_default();
					o.fail(
						if !missing.is_empty() { "origin-missed:filesystem-root" } else { "origin-invented:filesystem-root" },
						format!("inside a root directory listing {listing:?}: origins({q:?}) = {got:?}, missing {missing:?}, unexpected {extra:?}\ncase {c:?}"),
					);
					return o;
				}
			}
			Some(&"root-types") => {
				let mut want: Vec<String> = ref_types(&root).iter().map(|t| format!("{t:?}")).collect();
				want.sort();
				let got: Vec<String> = f[1..].iter().map(|s| (*s).to_string()).collect();
				if got != want {
					o.fail("types-differ:filesystem-root", format!("types(\"/\") = {got:?}, markers present imply {want:?}\ncase {c:?}"));
					return o;
				}
			}
			_ => {}
		}
	}
	if !out.lines().any(|l| l.starts_with("origins ")) {
		o.fail("env:helper-output", format!("no result from the helper: {out:?}"));
	}
	let _ = (marked_levels, wrong);
	o
}

fn chain_strategy() -> BoxedStrategy<ChainCase> {
	let n = ORIGIN_MARKERS.len() as u8;
	let node = prop_oneof![5 => (0..n).prop_map(Node::Right), 3 => (0..n).prop_map(Node::Wrong), 2 => (0u8..8).prop_map(Node::Decoy), 1 => (0..n).prop_map(Node::Special)];
	let level = prop_oneof![3 => Just(vec![]), 4 => proptest::collection::vec(node.clone(), 1..3), 1 => proptest::collection::vec(node, 3..8)];
	(proptest::collection::vec(level, 1..7), 0u8..7, 0u8..3)
		.prop_map(|(levels, start, start_kind)| ChainCase { levels, start, start_kind })
		.boxed()
}

/// Names of the enum variants as written in the source file, so that a new variant cannot be
/// silently skipped by the harness table.
fn source_variants() -> Option<Vec<String>> {
	let src = std::fs::read_to_string("/repo/crates/project-origins/src/lib.rs").ok()?;
	let start = src.find("pub enum ProjectType {")?;
	let body = &src[start..];
	let end = body.find("\n}")?;
	let mut v = Vec::new();
	for line in body[..end].lines().skip(1) {
		let t = line.trim();
		if t.starts_with("//") || t.starts_with('#') || t.is_empty() {
			continue;
		}
		if let Some(name) = t.strip_suffix(',') {
			if name.chars().all(|c| c.is_ascii_alphanumeric()) {
				v.push(name.to_string());
			}
		}
	}
	Some(v)
}

/// Every string literal of the source file that could be a marker name (a superset of the marker list:
/// the point is not to depend on the harness's own table).
fn source_marker_candidates() -> Vec<String> {
	let src = std::fs::read_to_string("/repo/crates/project-origins/src/lib.rs").unwrap_or_default();
	let mut out = std::collections::BTreeSet::new();
	for line in src.lines() {
		let t = line.trim_start();
		if t.starts_with("//") {
			continue;
		}
		let mut rest = line;
		while let Some(a) = rest.find('"') {
			let after = &rest[a + 1..];
			let Some(b) = after.find('"') else { break };
			let lit = &after[..b];
			if !lit.is_empty() && lit.len() < 40 && lit.chars().all(|c| c.is_ascii_alphanumeric() || "._-+".contains(c)) {
				out.insert(lit.to_string());
			}
			rest = &after[b + 1..];
		}
	}
	out.into_iter().collect()
}

#[derive(Clone, Debug, Serialize, Deserialize)]
pub struct SourceMarkerCase {
	pub name: String,
	pub as_dir: bool,
}

/// Whatever `types()` reports for a directory holding just this entry must be classified, whether or not
/// the harness has ever heard of that project type.
fn run_source_marker(c: &SourceMarkerCase) -> Outcome {
	let mut o = Outcome::pass();
	let tmp = match tempfile::Builder::new().prefix("vh-c20m-").tempdir_in(scratch_root()) {
		Ok(t) => t,
		Err(e) => {
			o.fail("env:tempdir", e.to_string());
			return o;
		}
	};
	let dir = tmp.path().join("d");
	let _ = std::fs::create_dir_all(&dir);
	let entry = dir.join(&c.name);
	if c.as_dir {
		let _ = std::fs::create_dir_all(&entry);
	} else {
		let _ = std::fs::write(&entry, b"x");
	}
	let rt = tokio::runtime::Builder::new_current_thread().enable_all().build().unwrap();
	let types = rt.block_on(project_origins::types(&dir));
	o.nontrivial = !types.is_empty();
	if !types.is_empty() {
		o.label("recognised-marker");
	}
	for t in &types {
		if t.is_vcs() == t.is_soft() {
			o.fail(
				"classification:neither-or-both",
				format!("a directory holding {} {:?} is reported as {t:?}, which has is_vcs={} is_soft={}", if c.as_dir { "the directory" } else { "the file" }, c.name, t.is_vcs(), t.is_soft()),
			);
			return o;
		}
	}
	o
}

pub fn check(e: &Engine) {
	e.assume("origin marker list transcribed from the implementation (the docs do not enumerate it); marker -> type table and VCS/Soft classes transcribed from the ProjectType variant docs");
	match source_variants() {
		Some(src) => {
			let mine: Vec<String> = variants().iter().map(|v| v.0.to_string()).collect();
			if src != mine {
				e.inconclusive(format!("harness out of date: ProjectType variants in source {src:?} differ from harness table {mine:?}"));
			}
		}
		None => e.inconclusive("cannot read the ProjectType enum from the source file"),
	}
	let cands = source_marker_candidates();
	e.enumerate(
		"source-markers",
		"every string literal of crates/project-origins/src/lib.rs that could be a marker name, placed alone in a directory as a file and as a directory: each project type that types() reports for it must be exactly one of version control / software suite (the harness names no variant here, so a type it has never heard of is covered too); non-trivial = the entry is recognised",
		true,
		cands.iter().flat_map(|n| [true, false].into_iter().map(move |as_dir| SourceMarkerCase { name: n.clone(), as_dir })).collect::<Vec<_>>(),
		&run_source_marker,
	);
	e.enumerate(
		"classification",
		"every ProjectType variant: is_vcs XOR is_soft, and equal to the documented class",
		true,
		variants().into_iter().map(|v| VariantCase { name: v.0.to_string() }),
		&run_variant,
	);
	// every marker alone, right-typed and wrong-typed, at one level
	let mut singles = Vec::new();
	for k in 0..ORIGIN_MARKERS.len() as u8 {
		for node in [Node::Right(k), Node::Wrong(k), Node::Special(k)] {
			singles.push(ChainCase {
				levels: vec![vec![], vec![node.clone()], vec![]],
				start: 2,
				start_kind: 0,
			});
			singles.push(ChainCase {
				levels: vec![vec![node]],
				start: 0,
				start_kind: 0,
			});
		}
	}
	e.enumerate(
		"single-markers",
		"every recognised marker alone, as the right node type, as the wrong one and as a FIFO of that name, in the start directory and in an ancestor",
		true,
		singles,
		&run_chain,
	);
	e.explore(
		"chains",
		LegOpts::det(e.tier.pick(8_000, 200_000), "chains of 1-6 nested dirs with random right-typed / wrong-typed markers, FIFOs named like markers and decoys per level, starting at any depth from a dir, a file, or a non-existent leaf; non-trivial = >=2 marked levels or a wrong-typed marker"),
		&chain_strategy,
		&run_chain,
	);
	if super::c18::helper_path().exists() {
		e.explore(
			"filesystem-root",
			LegOpts::det(e.tier.pick(300, 6_000), "the same chains built in a temp directory that a helper process makes its filesystem root (chroot): level 0 is `/` itself; origins() of the start path and of `/`, and types(\"/\"), against the reference predicate on the outside listing; non-trivial = a right-typed marker in the root directory (label chroot-unavailable and nothing explored where chroot is not permitted)"),
			&chain_strategy,
			&run_chain_rooted,
		);
	}
	e.require_label("chains", "2+marked-levels", 0.15);
	e.require_label("chains", "wrong-typed-marker", 0.2);
}
