#!/usr/bin/env python3
"""Regenerates the two result tables of DESIGN.md section 7 (between the BEGIN/END markers) from
seeded/<id>/meta.json and seeded/own/RESULTS.tsv. Run from /verif."""
import json, glob, os, re
def seeded():
    rows = ["| seeded change | property | caught by (quick tier) |", "|---|---|---|"]
    for d in sorted(glob.glob("seeded/C[0-9][0-9]-*")):
        m = json.load(open(f"{d}/meta.json"))
        c = ", ".join(m["caught_by"]) or "— " + m.get("note", "")[:160]
        rows.append(f"| {os.path.basename(d)} | {m['property']} | {c} |")
    return "\n".join(rows)
def own():
    rows = ["| mutation | file | result |", "|---|---|---|"]
    seen = {}
    for line in open("seeded/own/RESULTS.tsv"):
        p = line.rstrip("\n").split("\t")
        if len(p) >= 3:
            seen[p[0]] = p
    for p in seen.values():
        rows.append(f"| {p[0]} | {p[1]} | {p[2]} |")
    return "\n".join(rows)
s = open("DESIGN.md").read()
for name, body in (("seeded-table", seeded()), ("own-table", own())):
    s, n = re.subn(rf"(<!-- BEGIN {name} -->\n).*?(\n<!-- END {name} -->)", lambda m: m.group(1) + body + m.group(2), s, flags=re.S)
    assert n == 1, name
open("DESIGN.md", "w").write(s)
print("tables regenerated")
