#!/bin/bash
# Re-run every quick check on /repo's current tree so that the committed evidence files come from
# the registered commands on the unchanged tree. Prints one line per property.
cd /verif || exit 2
if [ -n "$(git -C /repo status --porcelain -- crates)" ]; then echo "/repo has uncommitted changes" >&2; exit 2; fi
rc_all=0
for i in $(seq -w 1 20); do
  id="C$i"
  out=$(VERIF_SEED=${VERIF_SEED:-0} ./check "$id" quick 2>/dev/null)
  rc=$?
  echo "$id rc=$rc $(echo "$out" | grep -E "tier=quick" | tail -1)"
  [ $rc -ne 0 ] && rc_all=1 && echo "$out" | grep -E "VIOLATION|INCONCLUSIVE|signature" | head -5
done
exit $rc_all
