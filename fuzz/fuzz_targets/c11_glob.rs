#![no_main]
//! C11 / C03 fuzz leg (oracle hardening): the independent matcher of the harness (gitmodel.rs)
//! against the glob library as the filterers use it (path-only `matched`, path-or-parents), over
//! byte-decoded patterns and paths from the properties' grammar. A disagreement means the reference
//! evaluator or the library differs on the documented grammar.
use std::path::Path;

use arbitrary::{Arbitrary, Unstructured};
use ignore::gitignore::GitignoreBuilder;
use libfuzzer_sys::fuzz_target;

#[path = "../../harness/src/gitmodel.rs"]
mod gitmodel;

const NAMES: &[&str] = &["test", "tests", "te", "a", "ab", "src", "x.log", "y.rs", "keep.txt", ".hidden", "a.tar.gz", "build", "x y"];

fn name(u: &mut Unstructured<'_>) -> arbitrary::Result<String> {
	Ok(NAMES[usize::from(u8::arbitrary(u)?) % NAMES.len()].to_string())
}

fn pattern(u: &mut Unstructured<'_>) -> arbitrary::Result<String> {
	let n = name(u)?;
	let m = name(u)?;
	let p = match u8::arbitrary(u)? % 14 {
		0 => n,
		1 => format!("*.{}", ["log", "rs", "txt", "gz"][usize::from(u8::arbitrary(u)?) % 4]),
		2 => format!("{n}/"),
		3 => format!("/{n}"),
		4 => format!("/{n}/"),
		5 => format!("{n}/{m}"),
		6 => format!("**/{n}"),
		7 => format!("{n}/**"),
		8 => format!("{n}/**/{m}"),
		9 => format!("**/{n}/{m}"),
		10 => "te*".to_string(),
		11 => "?b".to_string(),
		12 => format!("{n}/*.rs"),
		_ => "*".to_string(),
	};
	Ok(if u8::arbitrary(u)? % 4 == 0 { format!("!{p}") } else { p })
}

fuzz_target!(|data: &[u8]| {
	let mut u = Unstructured::new(data);
	let Ok(npat) = u8::arbitrary(&mut u) else { return };
	let mut lines = Vec::new();
	for _ in 0..(npat % 5) {
		let Ok(p) = pattern(&mut u) else { return };
		lines.push(p);
	}
	let Ok(depth) = u8::arbitrary(&mut u) else { return };
	let mut comps = Vec::new();
	for _ in 0..(depth % 4 + 1) {
		let Ok(n) = name(&mut u) else { return };
		comps.push(n);
	}
	let is_dir = u8::arbitrary(&mut u).unwrap_or(0) % 2 == 0;
	let root = Path::new("/vh-root");
	let mut b = GitignoreBuilder::new(root);
	for l in &lines {
		if b.add_line(None, l).is_err() {
			return;
		}
	}
	let Ok(gi) = b.build() else { return };
	let mut path = root.to_path_buf();
	for c in &comps {
		path.push(c);
	}
	let model: Vec<gitmodel::Line> = lines.iter().filter_map(|l| gitmodel::parse_line(l)).collect();
	let rel: Vec<&str> = comps.iter().map(String::as_str).collect();
	let want = gitmodel::verdict_path_only(&model, &rel, is_dir);
	let got = gi.matched(&path, is_dir);
	let got_v = if got.is_ignore() { gitmodel::Verdict::Ignore } else if got.is_whitelist() { gitmodel::Verdict::Whitelist } else { gitmodel::Verdict::None };
	assert_eq!(got_v, want, "path-only: patterns {lines:?} path {comps:?} is_dir={is_dir}");
	let want2 = gitmodel::verdict_path_or_parents(&model, &rel, is_dir);
	let got2 = gi.matched_path_or_any_parents(&path, is_dir);
	let got2_v = if got2.is_ignore() { gitmodel::Verdict::Ignore } else if got2.is_whitelist() { gitmodel::Verdict::Whitelist } else { gitmodel::Verdict::None };
	assert_eq!(got2_v, want2, "path-or-parents: patterns {lines:?} path {comps:?} is_dir={is_dir}");
});
