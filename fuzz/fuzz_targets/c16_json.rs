#![no_main]
//! C16 fuzz leg: any JSON text that parses as an Event (or a list of events) must re-serialise to
//! text that parses to an equal value; nothing may panic. The semantic oracle is inside the target.
use libfuzzer_sys::fuzz_target;
use watchexec_events::Event;

fuzz_target!(|data: &[u8]| {
	let Ok(text) = std::str::from_utf8(data) else { return };
	if let Ok(ev) = serde_json::from_str::<Event>(text) {
		let again = serde_json::to_string(&ev).expect("a parsed event must serialise");
		let back: Event = serde_json::from_str(&again).expect("serialised event must parse");
		assert_eq!(back, ev, "C16: re-serialised event differs\ninput: {text}\nserialised: {again}");
		// serialisation is a fixed point
		assert_eq!(serde_json::to_string(&back).unwrap(), again, "C16: serialisation is not a fixed point");
	}
	if let Ok(evs) = serde_json::from_str::<Vec<Event>>(text) {
		let again = serde_json::to_string(&evs).expect("serialise list");
		let back: Vec<Event> = serde_json::from_str(&again).expect("parse list");
		assert_eq!(back, evs, "C16: re-serialised event list differs");
	}
});
