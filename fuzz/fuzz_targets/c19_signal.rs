#![no_main]
//! C19 fuzz leg: parsing is case-insensitive (ASCII folding) for arbitrary strings, and whatever
//! parses displays to something that parses to the same OS signal; integers parse alike however written.
use std::str::FromStr;

use libfuzzer_sys::fuzz_target;
use watchexec_signals::Signal;

fn same(a: &Result<Signal, watchexec_signals::SignalParseError>, b: &Result<Signal, watchexec_signals::SignalParseError>) -> bool {
	match (a, b) {
		(Ok(x), Ok(y)) => x == y,
		(Err(_), Err(_)) => true,
		_ => false,
	}
}

fuzz_target!(|data: &[u8]| {
	let Ok(s) = std::str::from_utf8(data) else { return };
	let a = Signal::from_str(s);
	let up = Signal::from_str(&s.to_ascii_uppercase());
	let lo = Signal::from_str(&s.to_ascii_lowercase());
	assert!(same(&a, &up) && same(&a, &lo), "C19: parse({s:?}) = {a:?}, upper {up:?}, lower {lo:?}");
	let u = Signal::from_unix_str(s);
	assert!(same(&u, &Signal::from_unix_str(&s.to_ascii_uppercase())), "C19: from_unix_str({s:?}) is case-sensitive");
	// the number is an integer however it is written (015, +15)
	if let Ok(n) = i32::from_str(s) {
		let canon = Signal::from_str(&n.to_string());
		assert!(same(&a, &canon), "C19: parse({s:?}) = {a:?} but {n} parses to {canon:?}");
	}
	if let Ok(sig) = a {
		let shown = sig.to_string();
		match Signal::from_str(&shown) {
			Ok(back) => assert_eq!(back.to_nix(), sig.to_nix(), "C19: display round trip of {sig:?} via {shown:?}"),
			Err(e) => {
				// only signals without an OS meaning may fail to round-trip
				assert!(sig.to_nix().is_none(), "C19: {sig:?} displays as {shown:?} which does not parse: {e}");
			}
		}
	}
});
