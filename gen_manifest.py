#!/usr/bin/env python3
"""Writes /verif/MANIFEST.json from the per-property table below (single source of truth)."""
import json

ALL = ["C%02d" % i for i in range(1, 21)]

# id -> dict(level_text, level_note, technique, design_ref)
CLAIMED = {
 "C19": dict(
   text="Complete enumeration of the finite conversion tables (every nix signal x 3 spellings x 10 casings, every documented Windows control name, every wait status for exit codes 0-255 and signals 1-64 with/without core bit) against a reference table transcribed from signal(7) and the crate docs, plus generated --map-signal strings through the real clap parser and generated arbitrary strings for case-insensitivity. Exhaustive for the tables, sampled for free-form strings.",
   note="Linux x86-64 numbering; Windows cfg branches not executed; reference table is the harness's own transcription of POSIX numbers.",
   technique="exhaustive table enumeration + proptest generated strings against a reference table and round-trip/metamorphic (case-folding) relations",
   ref="DESIGN.md §3 C19"),
}

NOT_YET = "check not built yet in this session (work in progress; see DESIGN.md §3)"

def main():
    checks = []
    for pid in ALL:
        if pid not in CLAIMED:
            continue
        c = CLAIMED[pid]
        checks.append({
            "property_id": pid,
            "quick_cmd": f"./check {pid} quick",
            "thorough_cmd": f"./check {pid} thorough",
            "evidence_file": f"/verif/evidence/{pid}.json",
            "replay_cmd_template": f"./check {pid} --replay {{path}}",
            "engine": "vcheck",
            "level_claimed": {"category": c.get("category", "exploration"), "text": c["text"], "design_ref": c["ref"]},
            "level_note": c["note"],
            "technique": c["technique"],
        })
    m = {
        "version": 1,
        "setup_cmd": "cd /verif/harness && CARGO_NET_OFFLINE=true cargo build --offline --bins",
        "hooks": {
            "guard": "cargo feature `verif-hooks` (crates watchexec and watchexec-cli), off by default",
            "enable": "the harness crate /verif/harness depends on /repo's crates by path with features=[\"verif-hooks\"]; ./check rebuilds it from /repo's working tree before every run",
            "baseline_off_cmd": "cd /repo && cargo nextest run --workspace --no-fail-fast --tool-config-file pb:/w/lib/nextest.toml --profile pb --test-threads 8 --offline || cargo test --workspace --no-fail-fast --offline",
            "source_commits": HOOK_COMMITS,
            "add_only": True,
        },
        "engines": [
            {"name": "vcheck", "path": "/verif/harness", "serves_properties": sorted(CLAIMED.keys()),
             "kind_free_text": "Rust binary: seeded, sharded proptest TestRunner (ChaCha, fixed seed from VERIF_SEED), own shrink loop holding the failure signature fixed, replay files, label/non-triviality accounting, known-findings matcher, evidence writer. Media: pure calls, tokio paused-clock runtimes with simulated children/mock watcher, real processes/filesystem."},
        ],
        "checks": checks,
        "not_applicable": [{"property_id": p, "reason": NOT_APPLICABLE.get(p, NOT_YET)} for p in ALL if p not in CLAIMED],
        "notes": "Exit codes of every command: 0 held on everything explored; 1 VIOLATION line printed; 2 inconclusive (build failure, watchdog, degenerate generator) - never a violation. Known findings: /verif/known_findings.json.",
    }
    json.dump(m, open("/verif/MANIFEST.json", "w"), indent=1)
    print("claimed:", sorted(CLAIMED.keys()))

HOOK_COMMITS = []
NOT_APPLICABLE = {}

if __name__ == "__main__":
    main()
