#!/usr/bin/env python3
"""Writes /verif/MANIFEST.json from the per-property table below (single source of truth)."""
import json

ALL = ["C%02d" % i for i in range(1, 21)]

# id -> dict(level_text, level_note, technique, design_ref)
CLAIMED = {
 "C05": dict(
   text="The CLI's real action handler (make_config through hook H2, real clap parsing/normalisation incl. the -r / --signal shorthands) driven in-process with synthetic change events; the supervised command is a helper that logs start / signal / end lines with CLOCK_MONOTONIC stamps and holds a flock for its lifetime (kernel-level overlap witness). Generated: four modes, stop signal TERM/INT/USR1, stop timeout 100-400 ms, optional --delay-run, debounce 20-50 ms, command that exits after 450-800 ms / runs until signalled / ignores the stop signal, 1-4 changes positioned against the observed lifecycle (clearly mid-run, clearly idle, at the moment of exit, inside the grace period, back-to-back, exit during the delay sleep). Oracles: no overlap (always); idle change starts exactly one run; mid-run change: do-nothing -> no signal, no extra run; signal -> exactly the configured signal, no restart; restart -> stop signal at once, replacement not before the stop timeout for a command ignoring it and promptly after, a fresh run; queue -> exactly one further run after the current one ends; freshness in restart and queue modes. e2e leg with the real binary and a real file change: first run at start-up unless --postpone.",
   note="Real time and real processes; class-specific assertions only for changes that are clearly mid-run / idle by >=150-200 ms; failures must reproduce (3 of 3; freshness failures 1 more in 5). The microsecond-wide queue-mode window of DESIGN.md §5 is not reached.",
   technique="proptest generated change schedules positioned against the observed process lifecycle, history oracles on helper logs + flock overlap witness (real time)",
   ref="DESIGN.md §3 C05"),
 "C08": dict(
   text="In-process Watchexec whose action handler runs a generated program over real helper processes: 0-4 jobs (plain / grouped / session; command exits on the stop signal, ignores it, or forks a process-group member that ignores / exits) brought to states never-started, running, finished, running with an armed grace timer (graceful stop or try-restart), deleted; handle clones held outside; queued run_async sleeps; abort or graceful quit (grace 0-900 ms), optionally requested in the action that created the jobs; plus scenarios with 2-4 jobs that all need their full grace period. Oracle: main's JoinHandle completes within the bound (abort 1.5 s; graceful max over jobs of pending grace + quit grace + queued sleeps, + 0.8 s), and 300 ms later every pid the helpers logged (children always; group members of grouped/session commands after a graceful quit) is gone or a zombie. CLI leg: the real binary under SIGINT / SIGTERM exits within stop-timeout + slack and leaves nothing behind.",
   note="Real time and real processes: failures must reproduce 3 times; bounds carry fixed slack. One open known finding: a group member ignoring the stop signal survives a graceful stop of a grouped command whose leader exits.",
   technique="proptest generated handler programs over real processes with time-bound and /proc survivor oracles",
   ref="DESIGN.md §3 C08"),
 "C12": dict(
   text="All 64 combinations of the six ignore-source flags x 7 explicit options (none, --ignore, --ignore-file, --filter, --filter-file, --exts, --fs-events) x generated projects (VCS dir, .gitignore, .ignore, nested .gitignore, .git/info/exclude, global git ignore and global watchexec ignore under a pinned HOME/XDG, paths hit only by built-in defaults), in-process through hook H2 (real clap parsing and normalisation, real WatchexecFilterer). One probe per source: rejected exactly when the flag set does not remove that source (table transcribed from the flag docs); probes for the explicit option: verdict identical under all flag sets and equal to the documented effect.",
   note="Enumeration is complete over flags x options (exhaustive: true) for the generated project shapes; leg cli-e2e runs the real CLI process (wx) in --only-emit-events mode on generated (flag set, option, project) triples with real file creations and the same expectation tables (64 cases quick, 1800 thorough), covering get_args() and the config wiring that hook H2's args_from repeats rather than calls. For positive filters only the invariance of the explicit probes is asserted.",
   technique="exhaustive configuration matrix with a documentation-derived table oracle and a metamorphic (flag-invariance) relation",
   ref="DESIGN.md §3 C12"),
 "C18": dict(
   text="Real processes. The child is a helper that dumps its argv (hex), pid/pgid/sid, cwd and environment; it is also used as the *shell*, which makes the exact argv a shell would receive observable. Generated argument vectors (0-6 strings with spaces, tabs, newlines, quotes, $, *, backslashes, empty strings, non-ASCII), shell descriptions (0-3 options, program option none / -c / /C / arbitrary, command, extra args), plain / grouped / session / both, reset_sigmask, spawned via Command::to_spawnable or through a Job whose spawn hook sets env and cwd. Oracles: argv byte-for-byte in the documented order, pgid/sid relations, hook env and cwd visible. Second leg: a job with an env-setting hook driven through restart / try_restart / restart_with_signal / try_restart_with_signal with commands that exit on or ignore the signal: every spawned process sees the hook's environment. CLI leg: --shell joins words with single spaces behind -c; -n passes words verbatim.",
   note="NUL bytes excluded; Linux only.",
   technique="proptest generated argument vectors / shell descriptions with an observational round-trip oracle through real child processes",
   ref="DESIGN.md §3 C18"),
 "C01": dict(
   text="Conservation ledger over a full in-process Watchexec in real time: 1-4 producer tasks send uniquely numbered synthetic events (priority low..urgent, table-driven filter verdict pass/reject/error, tag shapes incl. path, signal, keyboard EOF and empty), handler sync/async taking 0-80 ms, queue size 1/2/8/4096, gaps placed relative to the throttle. Every event owed (send returned Ok) that passes, is urgent or is empty is delivered exactly once; rejected/errored ones never; nothing twice; urgent and empty events never reach the filter and others at most once; no empty batch. All assertions are about what was delivered, not when. Leg real-fs: real native (inotify) and poll watchers on generated scratch trees with create/write/rename/remove/mkdir scripts and run-time path-set changes: every change under a configured path is named by a delivered event, nothing outside is reported. Leg real-sources: a separate probe process with the real signal and keyboard sources receives generated sequences of OS signals, typed bytes and stdin EOF under a recording filter: each signal in exactly one handler event unless the filter rejected it, one EOF event iff the keyboard source is on, no empty batch.",
   note="The quit is requested only once everything owed has arrived (or 1.5 s + 3 x throttle + one handler duration per event have passed); a failure must reproduce 3 times to count. In the real-sources leg the same signal kind is never sent twice within 300 ms (standard signals do not queue); poll-watcher writes wait for the next clock second (notify compares second-granularity mtimes).",
   technique="proptest generated producer schedules with a conservation-ledger invariant (real time, schedule-independent oracle)",
   ref="DESIGN.md §3 C01"),
 "C02": dict(
   text="Generated arrival patterns (single event, burst inside the window, straddling its end, continuous accepted stream for 3T, continuous rejected/erroring stream for 6T after one accepted event, urgent event inside a 0.6-2 s window, zero throttle, throttle changed inside a window or while idle, mixed priorities with slow handlers) with producer-side before/after stamps and handler entry stamps. Always asserted (one-sided): a batch without an urgent member is never handed over earlier than the throttle in effect after its first event was sent. With an idle handler and 250 ms slack: bounded delay after the window (incl. under rejected streams: no starvation), urgent flush, zero throttle waits for nothing; for T >= 100 ms: events sent well inside the window are not split into a later batch. Work-based starvation criterion (no clock): a recording filter counts rejected events the worker consumes later than 20 ms after the window (started when it took the batch's first accepted event) ended and before handing the batch over; the unchanged worker takes at most one, 4+ (paced stream) or 50+ (leg rejected-flood: 1-3 tasks on other worker threads sending rejected events as fast as a queue of capacity 1-16384 takes them) is a violation.",
   note="Upper bounds are real-time assertions: 250 ms slack (jitter observed < 5 ms), must reproduce 3 times; counted as timing anomaly otherwise. Starvation is decided by counting consumed events, not by time, so load cannot fake it.",
   technique="proptest generated arrival patterns with one-sided and slack-bounded timing oracles (real time)",
   ref="DESIGN.md §3 C02"),
 "C15": dict(
   text="C01 scenarios with injected filter errors and error bursts, error queue size 1/2/64, error handler that ignores / is slow / replaces itself / elevates on the j-th error / raises a critical External on the j-th: each injected error reaches the handler exactly once with its identity, the rest of the ledger still balances and main ends Ok unless escalated, in which case main ends with exactly that Elevated (wrapping error j) or External error; handlers replacing themselves (and the path set) from inside neither deadlock nor affect the invocation in progress. Watcher-origin faults through the mock watcher (H1): synthetic notify events and errors, event-queue overflow under a slow handler, failing watch() on 1-13 of the configured paths with a small error queue and slow error handler: every event delivered once or reported once (never both; never neither when the error queue cannot be full), watcher errors at most once, exactly one PathAdd error per failed path naming it, other paths still registered.",
   note="Real time. One open known finding (schedule-dependent, multi-thread runtime): escalation masked by ErrorChannelSend.",
   technique="proptest fault-sequence generation with exactly-once ledgers (real time) + mock-watcher fault injection",
   ref="DESIGN.md §3 C15"),
 "C13": dict(
   text="The production sources::fs::worker driven on a paused current-thread runtime with a recording, fault-injecting notify::Watcher substituted through hook H1. Bounded-exhaustive over all sequences of a 12-op alphabet (2-path universe: set/clear/recursion-mode flip, kind change, watch/unwatch failure, during-apply path and kind change, irrelevant change) up to length 3 (quick) / 4 (thorough) x {settled, burst}, then random sequences over a 4-path universe. 'During-apply' ops make a change land inside the worker's read-apply window deterministically (the mock performs it from within the k-th watch/unwatch call). After changes stop: registered set with modes == configured set (minus paths whose latest attempt was failed by injection), active kind == configured kind, empty set releases the watcher, one RuntimeError per failed attempt naming the path, no unwatch of an unregistered path; after a retry round the set is exact.",
   note="Legs exhaustive/random use the mock watcher (H1) to see the registered set itself; leg behavioural uses real native and poll watchers on real files (a write under a configured path is reported, under a dropped path is not). Handler-reconfiguration (no deadlock, old invocation unaffected) is checked in C15's in-process runner. One open known finding: recursion-mode flip after a failed unwatch (bookkeeping keyed on (path, mode)).",
   technique="bounded-exhaustive + proptest stateful sequences with fault injection against a model of the configured set (virtual time)",
   ref="DESIGN.md §3 C13"),
 "C03": dict(
   text="Real ignore files on a scratch tree, verdicts through IgnoreFilterer::check_event / IgnoreFilter::check_dir compared with an independent gitignore evaluator (own glob matcher; nearest directory's files first with path-then-parents inside each, last line wins, then farther, then global) restricted to the region where it agrees with a second, git top-down evaluator; plus four metamorphic relations that need no model: removing the ignore file of D never changes a verdict outside D, permutations preserving same-directory order give identical verdicts, rebuilding from identical inputs gives identical verdicts, new(all) == new(prefix)+add_file(rest). Directory alphabets are built to contain test/tests-style prefix siblings; 30% negations.",
   note="git check-ignore third opinion not built (two independent evaluators are used instead). A directory versus an ignore file stored in that very directory, and semantics-divergent probes, are labelled and not asserted, as the property states. Outside-origin probes only go through the metamorphic relations.",
   technique="proptest with an independent reference evaluator (differential) + metamorphic relations on generated trees",
   ref="DESIGN.md §3 C03"),
 "C11": dict(
   text="GlobsetFilterer::check_event verdicts for generated configurations (0-3 filter patterns, 0-3 ignore patterns with negations, 0-2 extensions, optional whitelist, optional origin-level ignore file) and events of 0-3 paths (file/dir/unknown, inside/outside the origin) compared with the documented composition evaluated by the independent matcher (path-only matching relative to the origin, 1.x double-slash compatibility, extension rule), plus laws asserted independently: empty configuration passes everything, an ignore match beats a filter match, appending a non-negated ignore pattern never turns a rejection into a pass.",
   note="Filter lists always contain at least one non-negated pattern (an all-negated list is not settled by the docs). The CLI layer (fs-event kinds, filter programs) is covered by C12 only as far as --fs-events. Thorough tier adds a libFuzzer leg (c11_glob) that cross-checks the independent matcher against the glob library on byte-decoded pattern/path pairs (hardening the oracle shared by C03/C11/C14).",
   technique="proptest differential against an independent matcher + algebraic laws (monotonicity, precedence)",
   ref="DESIGN.md §3 C11"),
 "C14": dict(
   text="ignore_files::from_origin on generated real trees (tmpfs; prefix-sibling names; .ignore/.gitignore/.hgignore that are non-empty, empty or directories; origin-level VCS files; VCS metadata dirs with decoy ignore files; directory-oriented patterns with negations; explicit watch lists; explicit ignore files) compared as a set of (path, applies_in, applies_to) with an independent walker built on the independent evaluator; errors must be empty; the same tree created in the opposite order (flipping tmpfs listing order) must give the same set.",
   note="Symlinks, nested VCS metadata dirs and .git/config core.excludesFile are not generated. A bare `*` in a file loaded before the walk (explicit / origin-level VCS) also matches the origin itself - the directory-vs-own-ignore-file case the properties leave open - and is rewritten by the generator.",
   technique="proptest differential against a reference walker + listing-order metamorphic relation",
   ref="DESIGN.md §3 C14"),
 "C16": dict(
   text="Round trip from_str(to_string(e)) == e and equality of the serialised form with a reference encoder written from the documented field list, exhaustively for every filesystem event kind (41, hand-written spelling table), first-class signal, source and file type, and for generated events (0-8 tags in any order, UTF-8 paths incl. empty/non-ASCII/long, pids over u32, Signal::from(n) over i32, exit codes over the full i64/i32 ranges, metadata maps). Generated malformed tag objects of each known kind (random subsets of type-valid fields of all kinds, nulls, boundary codes) must parse, never be mistaken for another kind, be Unknown exactly when a required field is missing/contradictory, and re-serialise idempotently; structured raw JSON text must re-serialise to an equal event without panicking.",
   note="Reference encoder and kind table are the harness's transcription of the documented format (--emit-events-to docs, README, pinned snapshots). Thorough tier adds a coverage-guided libFuzzer/ASan leg (fuzz/fuzz_targets/c16_json.rs, oracle inside the target: parse => re-serialise => equal, fixed point, no panic; fixed -runs/-seed, fresh corpus seeded from fuzz/seeds).",
   technique="exhaustive enumeration + proptest round-trip / differential against a reference encoder and decoder-totality oracle",
   ref="DESIGN.md §3 C16"),
 "C17": dict(
   text="Reconstruction oracle on summarise_events_to_env over generated batches (shared-prefix trees with prefix-related names, a path equal to the common directory, duplicates across events, relative/disjoint roots, 0-2 kinds per event, file/dir/unknown): every (path, kind) pair is recoverable by joining COMMON with an entry of (one of) its variable(s), nothing else is listed, entries strictly increase bytewise, COMMON equals the reference longest common directory when every pathed event has a kind; CLI simple format line list equals the reference (events, paths, kinds) and the CLI environment emitter equals the library summary under the documented variable names.",
   note="Separators ':' and newline excluded from names. Kinds the docs do not place unambiguously accept two variables; simple-format labels accept documented and implemented spellings. End-to-end environment leg (vhelper) is part of C18's real-process check, not this one.",
   technique="proptest with a reconstruct-by-join (inverse) oracle and a reference implementation of common-directory / line listing",
   ref="DESIGN.md §3 C17"),
 "C20": dict(
   text="Exhaustive over the ProjectType enumeration (is_vcs XOR is_soft, equal to the documented class; variant list cross-checked against the source file) and over every recognised marker alone as right and wrong node type; generated chains of 1-6 nested real directories with right-typed / wrong-typed markers and decoys per level, started from a dir, a file or a non-existent leaf: origins() must equal exactly the ancestors-or-self that hold a right-typed marker (real ancestors above the scratch root judged by the same reference predicate) and types() must equal the image of the markers present.",
   note="Origin-marker list is transcribed from the implementation (docs do not enumerate it); marker->type and classes from the variant docs. Symlinks are not generated.",
   technique="exhaustive finite tables + proptest on generated directory trees against a reference predicate",
   ref="DESIGN.md §3 C20"),
 "C04": dict(
   text="History invariant over the time-stamped call log of simulated children installed through the public spawn hook (production job task, paused tokio clock): at every spawn, every earlier child of the job has had its exit status collected. Bounded-exhaustive over all sequences of the 11 lifecycle controls up to length 3 (quick) / 4 (thorough) x {burst, settled} x 4 child classes, then random sequences (<=14 steps) with gaps, graces and child reaction delays drawn from one value pool so ties at timer deadlines are frequent, spawn/kill/signal failure injection, a raw ContinueTryGracefulRestart control and a generated select! seed; plus a multi-thread leg: the controls of a generated sequence sent by 2-4 concurrent tasks on a multi-thread runtime with real millisecond timers, same invariant; plus a real-process leg: 3-13 controls from 1-3 concurrent tasks on real vhelper processes (plain/grouped/session) with an exclusive flock per job and an un-reaped-predecessor probe (spawn hook + /proc) as witnesses; the raw ContinueTryGracefulRestart control is in the alphabet.",
   note="Virtual-time legs: one schedule per (sequence, timing, select! seed) on tokio's current-thread scheduler. Multi-thread leg: whatever interleavings the OS produces in 200 (quick) / 4000 (thorough) runs, not controlled or enumerated. The simulated child replaces process-wrap's child object (a real /bin/true is still spawned underneath). In the real-process leg a lost child object is killed on drop, so a second live process exists for microseconds: the deciding witness there is a spawn hook that looks in /proc for un-reaped earlier helpers of the job right before every spawn.",
   technique="bounded-exhaustive + proptest stateful sequences over the Job API, invariant over the simulated-child call history (virtual time)",
   ref="DESIGN.md §3 C04"),
 "C06": dict(
   text="Timed-history oracle computed from the case alone (signal number, grace, child reaction delay, follower offsets) against the simulated child's call log in exact virtual time: signal first and at once, no kill before t+g, kill+reap exactly at t+g if still running, normal-priority followers held back until the process ended, replacement spawned exactly once and not before the end, ticket instants. Generated: all three graceful controls in every prior job state, graces {0,1,50,100,1000,10000} ms, reactions at g-1/g/g+1 and elsewhere, 0-5 followers of every priority at offsets around the deadline.",
   note="Exact ties (reaction == grace, exit in the arrival instant) accept either order; for signals nix cannot represent only 'some catchable signal first' is asserted. Leg real-process: the same three controls on real vhelper processes through process-wrap on real time, asserted as jitter-proof evidence (seen dead before the deadline / own end record missing; seen alive 1.5 s after it; wrong first signal; follower or ticket before the process was gone; replacement count != 1; replacement finds the lock held or the old process un-reaped); reactions within 50 ms of the deadline are not judged there.",
   technique="proptest scenario generation with a timed-history (metamorphic/time-bound) oracle on virtual time",
   ref="DESIGN.md §3 C06"),
 "C07": dict(
   text="Model-free completion bound: a run() marker is sent right behind every control; per-priority FIFO and the held-back normal queue make the marker's execution instant an upper bound for the control's completion (for a graceful stop exactly min(process exit, grace expiry)). 1-4 bare ticket.await waiter tasks per ticket record their completion instants in virtual time (no timeout wrapper, so a lost wake-up is 'never'); compared with that bound, with job end for outstanding tickets, with the to_wait rule; closures must run exactly once; delete / delete_now / last-handle-drop and spawn/kill/signal failures at generated positions. Plus a multi-thread leg (2-4 concurrent senders, 1-3 waiter tasks per ticket, real millisecond timers, optional final delete / delete_now with work outstanding): once the run is quiet every waiter of every ticket has resolved, no closure ran twice, the task ended after a delete and never panicked.",
   note="Same medium as C04. The bound relies on per-priority FIFO, which C10 checks separately. The multi-thread leg asserts no deadlines (real time), only eventual resolution within a 3 s watchdog after all processes have ended.",
   technique="proptest stateful sequences, history invariant on waiter completion instants (virtual time) with fault injection",
   ref="DESIGN.md §3 C07"),
 "C09": dict(
   text="Lock-step comparison with an executable reference model of the documented Job API (event simulation over the same case: send instants, simulated-child behaviours, injected faults) predicting the full child-call log with instants, state probes seen by run() closures, hook calls and their effect, error-handler calls, ticket resolution instants and task end. Bounded-exhaustive over a 15-control alphabet up to length 2 (quick) / 3 (thorough) x 3 child classes x 3 send patterns (+spawn failure), random sequences with distinct event times, and the general generator. The named laws (start idempotent, stop-idle no-op, restart leaves a fresh process, try-restart never starts an idle job, to_wait immediate when idle, hook once per spawn with effect) are additionally asserted directly on traces without the model.",
   note="Where the outcome depends on the order of simultaneous events (child exit vs pending control, a parked task woken with several ready queues) the model reports a tie and only schedule-independent invariants are checked (about 20-30% of random cases, counted in evidence). Where docs are silent the model follows observed behaviour.",
   technique="model-based testing: reference state machine vs implementation on generated and bounded-exhaustive control histories (virtual time)",
   ref="DESIGN.md §3 C09"),
 "C10": dict(
   text="Marker controls record a global sequence number. Per-priority FIFO, exactly-once and non-decreasing ticket instants are asserted for bursts of 3-30 controls sent to a gated (busy), parked, or grace-timer-armed job; urgent-over-normal (delete_now pending with queued work: none of it runs, job ends at the release instant) and high-over-normal (to_wait observes the state before queued start / stop+start) are asserted where all controls are demonstrably pending when the task looks at its queues afresh; no normal control runs while a grace timer is armed; plus 2-4 concurrent senders on a multi-thread runtime (per-sender order, last-ticket-implies-all-earlier).",
   note="Urgent-before-high has no API-visible consequence and is not asserted. For a task parked in select! the first pick is random by design of tokio::select!, so cross-priority order is only asserted for gated bursts.",
   technique="proptest generated bursts with sequence-number invariants (virtual time) + multi-thread sampling",
   ref="DESIGN.md §3 C10"),
 "C19": dict(
   text="Complete enumeration of the finite conversion tables (every nix signal x 3 spellings x 10 casings, every documented Windows control name, every wait status for exit codes 0-255 and signals 1-64 with/without core bit) against a reference table transcribed from signal(7) and the crate docs, plus generated --map-signal strings through the real clap parser and generated arbitrary strings for case-insensitivity. Exhaustive for the tables, sampled for free-form strings.",
   note="Linux x86-64 numbering; Windows cfg branches not executed; reference table is the harness's own transcription of POSIX numbers. Thorough tier adds a libFuzzer leg (c19_signal: case-folding invariance and display round trip on arbitrary strings).",
   technique="exhaustive table enumeration + proptest generated strings against a reference table and round-trip/metamorphic (case-folding) relations",
   ref="DESIGN.md §3 C19"),
}

NOT_YET = "check not built yet in this session (work in progress; see DESIGN.md §3)"

def main():
    checks = []
    for pid in ALL:
        if pid not in CLAIMED:
            continue
        c = CLAIMED[pid]
        checks.append({
            "property_id": pid,
            "quick_cmd": f"./check {pid} quick",
            "thorough_cmd": f"./check {pid} thorough",
            "evidence_file": f"/verif/evidence/{pid}.json",
            "replay_cmd_template": f"./check {pid} --replay {{path}}",
            "engine": "vcheck",
            "level_claimed": {"category": c.get("category", "exploration"), "text": c["text"], "design_ref": c["ref"]},
            "level_note": c["note"],
            "technique": c["technique"],
        })
    m = {
        "version": 1,
        "setup_cmd": "cd /verif/harness && CARGO_NET_OFFLINE=true cargo build --offline --bins",
        "hooks": {
            "guard": "cargo feature `verif-hooks` (crates watchexec and watchexec-cli), off by default",
            "enable": "the harness crate /verif/harness depends on /repo's crates by path with features=[\"verif-hooks\"]; ./check rebuilds it from /repo's working tree before every run",
            "baseline_off_cmd": "cd /repo && cargo nextest run --workspace --no-fail-fast --tool-config-file pb:/w/lib/nextest.toml --profile pb --test-threads 8 --offline || cargo test --workspace --no-fail-fast --offline",
            "source_commits": HOOK_COMMITS,
            "add_only": True,
        },
        "engines": [
            {"name": "vcheck", "path": "/verif/harness", "serves_properties": sorted(CLAIMED.keys()),
             "kind_free_text": "Rust binary: seeded, sharded proptest TestRunner (ChaCha, fixed seed from VERIF_SEED), own shrink loop holding the failure signature fixed, replay files, label/non-triviality accounting, known-findings matcher, evidence writer. Media: pure calls, tokio paused-clock runtimes with simulated children/mock watcher, real processes/filesystem."},
        ],
        "checks": checks,
        "not_applicable": [{"property_id": p, "reason": NOT_APPLICABLE.get(p, NOT_YET)} for p in ALL if p not in CLAIMED],
        "notes": "Exit codes of every command: 0 held on everything explored; 1 VIOLATION line printed; 2 inconclusive (build failure, watchdog, degenerate generator) - never a violation. Known findings: /verif/known_findings.json.",
    }
    json.dump(m, open("/verif/MANIFEST.json", "w"), indent=1)
    print("claimed:", sorted(CLAIMED.keys()))

HOOK_COMMITS = ["8ee7871", "fc3877e"]
NOT_APPLICABLE = {}

if __name__ == "__main__":
    main()
