#!/usr/bin/env python3-vt
"""Validate MANIFEST.json and all evidence files against the schemas."""
import json, sys, glob, jsonschema
ok = True
ms = json.load(open('/root/.vp/MANIFEST.schema.json'))
try:
    jsonschema.validate(json.load(open('/verif/MANIFEST.json')), ms)
    print("MANIFEST ok")
except Exception as e:
    ok = False; print("MANIFEST INVALID:", str(e)[:500])
es = json.load(open('/root/.vp/EVIDENCE.schema.json'))
for f in sorted(glob.glob('/verif/evidence/*.json')):
    try:
        e = json.load(open(f)); jsonschema.validate(e, es)
        c = e['coverage']
        print(f, "ok", e['tier'], "evals", c.get('evaluations'), "distinct_nt", c.get('distinct_nontrivial'), "viol", e.get('violations'), "wall", round(e['wall_s'],1))
    except Exception as ex:
        ok = False; print(f, "INVALID:", str(ex)[:300])
sys.exit(0 if ok else 1)
